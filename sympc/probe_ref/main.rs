mod dse;
mod grp;
mod more;
mod ro;
mod sbig;
mod sf;
mod sponge;
mod term;
use ark_ff::{Field, One, Zero};
use ark_poly::{univariate::DensePolynomial, DenseUVPolynomial, Polynomial};
use ark_poly_commit::ipa_pc::SuccinctCheckPolynomial;
use ark_poly_commit::streaming_kzg::{FoldedPolynomialStream, FoldedPolynomialTree};
use ark_std::iterable::Iterable;
use dse::{explore, sym};
use sf::SF;
use std::time::Instant;

fn h_succinct(k: usize) -> bool {
    let ch: Vec<SF> = (0..k).map(|i| sym(&format!("u{}", i))).collect();
    let z = sym("z");
    let sp = SuccinctCheckPolynomial(ch);
    let co = sp.compute_coeffs();
    let mut acc = SF::zero();
    for c in co.iter().rev() {
        acc = acc * z + c;
    }
    sp.evaluate(z) == acc
}

fn h_kzg_field(d: usize) -> bool {
    // p(X) - p(z) = w(X) (X - z) checked at a concrete beta, through ark-poly's division (as KZG10::open does)
    let coeffs: Vec<SF> = (0..=d).map(|i| sym(&format!("c{}", i))).collect();
    let z = sym("z");
    let beta = SF::from(0x1234_5678_9abc_def1u64) * SF::from(0xfeed_beef_dead_cafeu64);
    let p = DensePolynomial::from_coefficients_vec(coeffs.clone());
    let divisor = DensePolynomial::from_coefficients_vec(vec![-z, SF::one()]);
    let w = &p / &divisor;
    let v = p.evaluate(&z);
    let lhs = p.evaluate(&beta) - v;
    let rhs = w.evaluate(&beta) * (beta - z);
    // "honest" reference uses the untruncated coefficient list
    let mut acc = SF::zero();
    for c in coeffs.iter().rev() {
        acc = acc * z + c;
    }
    lhs == rhs && v == acc
}

fn h_fold(n: usize, k: usize, bug: bool) -> bool {
    let coeffs: Vec<SF> = (0..n).map(|i| sym(&format!("f{}", i))).collect();
    let ch: Vec<SF> = (0..k).map(|i| sym(&format!("r{}", i))).collect();
    // stream is big-endian (highest coefficient first) in streaming_kzg; emulate with reversed slice
    let mut rev = coeffs.clone();
    rev.reverse();
    let s = rev.as_slice();
    let stream = FoldedPolynomialStream::new(&s, ch.as_slice());
    let got: Vec<SF> = stream.iter().collect();
    // naive fold: f'(X) = f_even + r * f_odd, little-endian
    let mut cur = coeffs.clone();
    for r in ch.iter() {
        let mut nxt = vec![];
        for j in 0..(cur.len() + 1) / 2 {
            let e = cur[2 * j];
            let o = if 2 * j + 1 < cur.len() { cur[2 * j + 1] } else { SF::zero() };
            nxt.push(if bug { o + *r * e } else { e + *r * o });
        }
        cur = nxt;
    }
    cur.reverse();
    let _ = FoldedPolynomialTree::new(&s, ch.as_slice()).depth();
    got.len() == cur.len() && got.iter().zip(cur.iter()).all(|(a, b)| a == b)
}

fn h_inv() -> bool {
    // rational identity: (a/b + c/d) * b * d == a*d + c*b
    let (a, b, c, d) = (sym("a"), sym("b"), sym("c"), sym("d"));
    let (bi, di) = match (b.inverse(), d.inverse()) {
        (Some(x), Some(y)) => (x, y),
        _ => return true,
    };
    (a * bi + c * di) * b * d == a * d + c * b
}


use ark_poly_commit::{marlin_pc::MarlinKZG10, sonic_pc::SonicKZG10, LabeledPolynomial, PolynomialCommitment, QuerySet, Evaluations};
use ark_crypto_primitives::sponge::CryptographicSponge;
use ark_std::rand::{rngs::StdRng, SeedableRng};
type UP = DensePolynomial<SF>;
type MPC = MarlinKZG10<grp::ToyPairing, UP>;
type SPC = SonicKZG10<grp::ToyPairing, UP>;

fn h_pc<PC: PolynomialCommitment<SF, UP>>(degs: &[usize], bounds: &[Option<usize>], hiding: Option<usize>, batch: bool) -> bool {
    let rng = &mut StdRng::seed_from_u64(7);
    let maxd = 4;
    let pp = PC::setup(maxd, None, rng).unwrap();
    let eb: Vec<usize> = bounds.iter().filter_map(|b| *b).collect();
    let (ck, vk) = PC::trim(&pp, 3, hiding.unwrap_or(0), if eb.is_empty() { None } else { Some(&eb) }).unwrap();
    let mut polys = vec![];
    for (i, d) in degs.iter().enumerate() {
        let c: Vec<SF> = (0..=*d).map(|j| sym(&format!("p{}c{}", i, j))).collect();
        polys.push(LabeledPolynomial::new(format!("p{}", i), UP::from_coefficients_vec(c), bounds[i], hiding));
    }
    sf::SYM_RNG.with(|c| c.set(true));
    let r = PC::commit(&ck, &polys, Some(rng));
    sf::SYM_RNG.with(|c| c.set(false));
    let (comms, states) = match r { Ok(x) => x, Err(_) => return false };
    let z = sym("z");
    let vals: Vec<SF> = polys.iter().map(|p| p.evaluate(&z)).collect();
    if !batch {
        let mut sp = sponge::TapeSponge::new(&1);
        let proof = match PC::open(&ck, &polys, &comms, &z, &mut sp, &states, Some(rng)) { Ok(p) => p, Err(_) => return false };
        let mut sv = sponge::TapeSponge::new(&1);
        // verifier re-squeezes: must see the same symbols => share via replay of input values
        crate::sponge::REPLAY.with(|r| r.set(true));
        let ok = PC::check(&vk, &comms, &z, vals, &proof, &mut sv, Some(rng)).unwrap_or(false);
        crate::sponge::REPLAY.with(|r| r.set(false));
        ok
    } else {
        let mut qs = QuerySet::new();
        let mut ev = Evaluations::new();
        for (i, p) in polys.iter().enumerate() {
            qs.insert((p.label().clone(), ("z".to_string(), z)));
            ev.insert((p.label().clone(), z), vals[i]);
        }
        let mut sp = sponge::TapeSponge::new(&1);
        let proof = match PC::batch_open(&ck, &polys, &comms, &qs, &mut sp, &states, Some(rng)) { Ok(p) => p, Err(_) => return false };
        let mut sv = sponge::TapeSponge::new(&1);
        crate::sponge::REPLAY.with(|r| r.set(true));
        let ok = PC::batch_check(&vk, &comms, &qs, &ev, &proof, &mut sv, rng).unwrap_or(false);
        crate::sponge::REPLAY.with(|r| r.set(false));
        ok
    }
}

fn main() {
    let which = std::env::args().nth(1).unwrap_or("all".into());
    let run = |name: &str, f: &dyn Fn() -> bool| {
        if which != "all" && which != name {
            return;
        }
        let t = Instant::now();
        let maxr: usize = std::env::var("MAXRUNS").ok().and_then(|s| s.parse().ok()).unwrap_or(2000);
        let r = explore(f, 1, maxr, 10_000);
        println!("{name}: {:?} wall={:?}", r, t.elapsed());
    };
    run("succ3", &|| h_succinct(3));
    run("succ5", &|| h_succinct(5));
    run("kzg3", &|| h_kzg_field(3));
    run("fold52", &|| h_fold(5, 2, false));
    run("fold52bug", &|| h_fold(5, 2, true));
    run("inv", &h_inv);
    run("ipa", &|| more::h_ipa(false));
    run("ipah", &|| more::h_ipa(true));
    run("hyrax", &more::h_hyrax);
    run("hyrax_c02", &|| { more::BAD.with(|b| b.set(true)); let r = more::h_hyrax(); more::BAD.with(|b| b.set(false)); r });
    run("mligero_c02", &|| { more::BAD.with(|b| b.set(true)); let r = more::h_mligero(); more::BAD.with(|b| b.set(false)); r });
    run("ipa_c02", &|| { more::BAD.with(|b| b.set(true)); let r = more::h_ipa(false); more::BAD.with(|b| b.set(false)); r });
    run("pst13", &|| more::h_pst13(false));
    run("pst13h", &|| more::h_pst13(true));
    run("mlpc", &more::h_mlpc);
    run("stream", &more::h_stream);
    run("ligero", &more::h_ligero);
    run("mligero", &more::h_mligero);
    run("brakedown", &more::h_brakedown);
    run("marlin2s", &|| h_pc::<MPC>(&[1, 1], &[None, None], None, false));
    run("marlin2sb", &|| h_pc::<MPC>(&[1, 1], &[None, None], None, true));
    run("marlin1b", &|| h_pc::<MPC>(&[2], &[Some(2)], None, false));
    run("sonic1b", &|| h_pc::<SPC>(&[2], &[Some(2)], None, false));
    run("ligero_forge", &more::h_ligero_forge);
    run("ligero_noforge", &|| { more::FORGE.with(|f| f.set(false)); let r = more::h_ligero_forge(); more::FORGE.with(|f| f.set(true)); r });
    run("lc_alias", &more::h_lc_alias);
    run("kzg_ntape", &more::h_kzg_batch_ntape);
    run("kzg_srs", &more::h_kzg_srs);
    run("marlin1", &|| h_pc::<MPC>(&[2], &[None], None, false));
    run("marlin1h", &|| h_pc::<MPC>(&[2], &[None], Some(1), false));
    run("marlin2b", &|| h_pc::<MPC>(&[2, 1], &[Some(2), Some(3)], Some(1), false));
    run("marlin2bb", &|| h_pc::<MPC>(&[2, 1], &[Some(2), None], Some(1), true));
    run("sonic2b", &|| h_pc::<SPC>(&[2, 1], &[Some(2), Some(3)], Some(1), false));
}
