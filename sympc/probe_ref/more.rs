//! Smoke instantiations of the remaining schemes over the shadow algebra.
use crate::dse::sym;
use crate::grp::{ToyPairing, TA};
use crate::sf::{SF, SYM_RNG};
use crate::sponge::TapeSponge;
use ark_crypto_primitives::{
    crh::{sha256::Sha256, CRHScheme, TwoToOneCRHScheme},
    merkle_tree::{ByteDigestConverter, Config},
    sponge::CryptographicSponge,
};
use ark_ff::{One, Zero};
use ark_poly::{
    multivariate::{SparsePolynomial, SparseTerm, Term},
    univariate::DensePolynomial,
    DenseMVPolynomial, DenseMultilinearExtension, DenseUVPolynomial, Polynomial,
};
use ark_poly_commit::{
    hyrax::HyraxPC,
    ipa_pc::InnerProductArgPC,
    linear_codes::{LigeroPCParams, LinearCodePCS, MultilinearBrakedown, MultilinearLigero, UnivariateLigero},
    marlin_pst13_pc::MarlinPST13,
    multilinear_pc::MultilinearPC,
    streaming_kzg::{CommitterKey, CommitterKeyStream, VerifierKey},
    LabeledPolynomial, PolynomialCommitment,
};
use ark_serialize::CanonicalSerialize;
use ark_std::rand::{rngs::StdRng, RngCore, SeedableRng};
use blake2::Blake2s256;
use digest::Digest;
use std::borrow::Borrow;

type UP = DensePolynomial<SF>;
thread_local! { pub static BAD: std::cell::Cell<bool> = std::cell::Cell::new(false); }

fn run_pc<P: Polynomial<SF>, PC: PolynomialCommitment<SF, P>>(
    pp: &PC::UniversalParams,
    poly: P,
    point: P::Point,
    hiding: Option<usize>,
    sym_rng: bool,
) -> bool {
    let rng = &mut StdRng::seed_from_u64(9);
    let (ck, vk) = PC::trim(pp, 3, hiding.unwrap_or(0), None).unwrap();
    let lp = LabeledPolynomial::new("p".into(), poly, None, hiding);
    SYM_RNG.with(|c| c.set(sym_rng));
    let r = PC::commit(&ck, [&lp], Some(rng));
    let (comms, states) = match r {
        Ok(x) => x,
        Err(e) => {
            SYM_RNG.with(|c| c.set(false));
            eprintln!("commit err {e}");
            return false;
        }
    };
    let v = lp.evaluate(&point);
    let mut sp = TapeSponge::new(&1);
    let proof = PC::open(&ck, [&lp], &comms, &point, &mut sp, &states, Some(rng));
    SYM_RNG.with(|c| c.set(false));
    let proof = match proof {
        Ok(p) => p,
        Err(e) => {
            eprintln!("open err {e}");
            return false;
        }
    };
    let v = if BAD.with(|b| b.get()) {
        let d = sym("delta");
        if d.is_zero() { return true; } // assume delta != 0
        v + d
    } else { v };
    let mut sv = TapeSponge::new(&1);
    if BAD.with(|b| b.get()) {
        return !matches!(PC::check(&vk, &comms, &point, [v], &proof, &mut sv, Some(rng)), Ok(true));
    }
    match PC::check(&vk, &comms, &point, [v], &proof, &mut sv, Some(rng)) {
        Ok(b) => b,
        Err(e) => {
            eprintln!("check err {e}");
            false
        }
    }
}

pub fn h_ipa(hiding: bool) -> bool {
    type PC = InnerProductArgPC<TA<1>, crate::ro::RoDigest, UP>;
    let rng = &mut StdRng::seed_from_u64(7);
    let pp = PC::setup(3, None, rng).unwrap();
    let c: Vec<SF> = (0..=3).map(|j| sym(&format!("c{}", j))).collect();
    run_pc::<UP, PC>(&pp, UP::from_coefficients_vec(c), sym("z"), if hiding { Some(1) } else { None }, true)
}

pub fn h_hyrax() -> bool {
    type ML = DenseMultilinearExtension<SF>;
    type PC = HyraxPC<TA<1>, ML>;
    let rng = &mut StdRng::seed_from_u64(7);
    let pp = PC::setup(1, Some(2), rng).unwrap();
    let e: Vec<SF> = (0..4).map(|j| sym(&format!("e{}", j))).collect();
    let pt = vec![sym("z0"), sym("z1")];
    run_pc::<ML, PC>(&pp, ML::from_evaluations_vec(2, e), pt, None, true)
}

pub fn h_pst13(hiding: bool) -> bool {
    type MP = SparsePolynomial<SF, SparseTerm>;
    type PC = MarlinPST13<ToyPairing, MP>;
    let rng = &mut StdRng::seed_from_u64(7);
    let pp = PC::setup(2, Some(2), rng).unwrap();
    // all monomials of degree <= 2 in 2 vars
    let monos: Vec<Vec<(usize, usize)>> = vec![vec![], vec![(0, 1)], vec![(1, 1)], vec![(0, 2)], vec![(0, 1), (1, 1)], vec![(1, 2)]];
    let terms: Vec<(SF, SparseTerm)> = monos.iter().enumerate().map(|(j, m)| (sym(&format!("m{}", j)), SparseTerm::new(m.clone()))).collect();
    let p = MP::from_coefficients_vec(2, terms);
    let pt = vec![sym("z0"), sym("z1")];
    let rng2 = &mut StdRng::seed_from_u64(9);
    let (ck, vk) = PC::trim(&pp, 2, 1, None).unwrap();
    let lp = LabeledPolynomial::new("p".into(), p, None, if hiding { Some(1) } else { None });
    SYM_RNG.with(|c| c.set(true));
    let r = PC::commit(&ck, [&lp], Some(rng2));
    SYM_RNG.with(|c| c.set(false));
    let (comms, states) = r.unwrap();
    let v = lp.evaluate(&pt);
    let mut sp = TapeSponge::new(&1);
    let proof = PC::open(&ck, [&lp], &comms, &pt, &mut sp, &states, Some(rng2)).unwrap();
    let mut sv = TapeSponge::new(&1);
    PC::check(&vk, &comms, &pt, [v], &proof, &mut sv, Some(rng2)).unwrap()
}

pub fn h_mlpc() -> bool {
    let rng = &mut StdRng::seed_from_u64(7);
    let pp = MultilinearPC::<ToyPairing>::setup(2, rng);
    let (ck, vk) = MultilinearPC::<ToyPairing>::trim(&pp, 2);
    let e: Vec<SF> = (0..4).map(|j| sym(&format!("e{}", j))).collect();
    let p = DenseMultilinearExtension::from_evaluations_vec(2, e);
    let pt = vec![sym("z0"), sym("z1")];
    let com = MultilinearPC::commit(&ck, &p);
    let proof = MultilinearPC::open(&ck, &p, &pt);
    let v = p.evaluate(&pt);
    MultilinearPC::check(&vk, &com, &pt, v, &proof)
}

pub fn h_stream() -> bool {
    let rng = &mut StdRng::seed_from_u64(7);
    let ck = CommitterKey::<ToyPairing>::new(6, 3, rng);
    let vk = VerifierKey::from(&ck);
    let f: Vec<SF> = (0..5).map(|j| sym(&format!("f{}", j))).collect();
    let a = sym("a");
    let c1 = ck.commit(&f);
    let (ev, pf) = ck.open(&f, &a);
    let cks = CommitterKeyStream::from(&ck);
    let mut rev = f.clone();
    rev.reverse();
    let s = rev.as_slice();
    let c2 = cks.commit(&s);
    let (ev2, pf2) = cks.open(&s, &a, 2);
    c1 == c2 && ev == ev2 && pf == pf2 && vk.verify(&c1, &a, &ev, &pf).is_ok()
}

// ---- linear codes with byte hashers (symbolic info is lost in hashing: smoke only) ----
pub struct LeafId;
impl CRHScheme for LeafId {
    type Input = Vec<u8>;
    type Output = Vec<u8>;
    type Parameters = ();
    fn setup<R: ark_std::rand::Rng>(_: &mut R) -> Result<(), ark_crypto_primitives::Error> {
        Ok(())
    }
    fn evaluate<T: Borrow<Vec<u8>>>(_: &(), i: T) -> Result<Vec<u8>, ark_crypto_primitives::Error> {
        Ok(i.borrow().clone())
    }
}
pub struct ColH;
impl CRHScheme for ColH {
    type Input = Vec<SF>;
    type Output = Vec<u8>;
    type Parameters = ();
    fn setup<R: ark_std::rand::Rng>(_: &mut R) -> Result<(), ark_crypto_primitives::Error> {
        Ok(())
    }
    fn evaluate<T: Borrow<Vec<SF>>>(_: &(), i: T) -> Result<Vec<u8>, ark_crypto_primitives::Error> {
        let mut b = vec![];
        i.borrow().serialize_compressed(&mut b).unwrap();
        Ok(Blake2s256::digest(&b).to_vec())
    }
}
pub struct MT;
impl Config for MT {
    type Leaf = Vec<u8>;
    type LeafDigest = Vec<u8>;
    type LeafInnerDigestConverter = ByteDigestConverter<Vec<u8>>;
    type InnerDigest = <Sha256 as TwoToOneCRHScheme>::Output;
    type LeafHash = LeafId;
    type TwoToOneHash = Sha256;
}

pub fn h_ligero() -> bool {
    type PC = LinearCodePCS<UnivariateLigero<SF, MT, UP, ColH>, SF, UP, MT, ColH>;
    let pp: LigeroPCParams<SF, MT, ColH> = LigeroPCParams::new(128, 4, true, (), (), ());
    let c: Vec<SF> = (0..=3).map(|j| sym(&format!("c{}", j))).collect();
    run_pc::<UP, PC>(&pp, UP::from_coefficients_vec(c), sym("z"), None, false)
}
pub fn h_mligero() -> bool {
    type ML = DenseMultilinearExtension<SF>;
    type PC = LinearCodePCS<MultilinearLigero<SF, MT, ML, ColH>, SF, ML, MT, ColH>;
    let pp: LigeroPCParams<SF, MT, ColH> = LigeroPCParams::new(128, 2, true, (), (), ());
    let e: Vec<SF> = (0..4).map(|j| sym(&format!("e{}", j))).collect();
    run_pc::<ML, PC>(&pp, ML::from_evaluations_vec(2, e), vec![sym("z0"), sym("z1")], None, false)
}
pub fn h_brakedown() -> bool {
    type ML = DenseMultilinearExtension<SF>;
    type PC = LinearCodePCS<MultilinearBrakedown<SF, MT, ML, ColH>, SF, ML, MT, ColH>;
    let rng = &mut StdRng::seed_from_u64(7);
    let pp = PC::setup(1, Some(4), rng).unwrap();
    let e: Vec<SF> = (0..16).map(|j| sym(&format!("e{}", j))).collect();
    let pt: Vec<SF> = (0..4).map(|j| sym(&format!("z{}", j))).collect();
    run_pc::<ML, PC>(&pp, ML::from_evaluations_vec(4, e), pt, None, false)
}
#[allow(dead_code)]
fn _unused(_: &mut dyn RngCore) -> (SF, SF) {
    (SF::one(), SF::zero())
}

/// C03-style: honest Ligero transcript over RO Merkle hashing, then column 0 and the opened combination are
/// replaced by fresh symbolic values and the claimed value by p(z)+delta (delta != 0). Property: not accepted.
pub fn h_ligero_forge() -> bool {
    use crate::ro::{RoColHash, RoMT};
    type ML = DenseMultilinearExtension<SF>;
    type PC = LinearCodePCS<MultilinearLigero<SF, RoMT, ML, RoColHash>, SF, ML, RoMT, RoColHash>;
    let pp: LigeroPCParams<SF, RoMT, RoColHash> = LigeroPCParams::new(128, 2, true, (), (), ());
    let e: Vec<SF> = (0..4).map(|j| sym(&format!("e{}", j))).collect();
    let poly = ML::from_evaluations_vec(2, e);
    let point = vec![sym("z0"), sym("z1")];
    let rng = &mut StdRng::seed_from_u64(9);
    let (ck, vk) = PC::trim(&pp, 3, 0, None).unwrap();
    let lp = LabeledPolynomial::new("p".into(), poly, None, None);
    let (comms, states) = PC::commit(&ck, [&lp], Some(rng)).unwrap();
    let v = lp.evaluate(&point);
    let mut sp = TapeSponge::new(&1);
    let mut proof = PC::open(&ck, [&lp], &comms, &point, &mut sp, &states, Some(rng)).unwrap();
    let forge = FORGE.with(|f| f.get());
    if forge {
        let (_paths, pv, cols, _wf) = proof[0].verif_parts_mut();
        for j in 0..cols.len() { for x in cols[j].iter_mut() { *x = sym("fc"); } }
        for x in pv.iter_mut() { *x = sym("fv"); }
    }
    let d = sym("delta");
    if d.is_zero() { return true; }
    let mut sv = TapeSponge::new(&1);
    !matches!(PC::check(&vk, &comms, &point, [v + d], &proof, &mut sv, Some(rng)), Ok(true))
}
thread_local! { pub static FORGE: std::cell::Cell<bool> = std::cell::Cell::new(true); }

/// C06-style: default open_combinations/check_combinations (univariate Ligero), LC = p1 + p2 queried under two
/// point labels whose points are two independent symbolic values.
pub fn h_lc_alias() -> bool {
    use ark_poly_commit::{Evaluations, LinearCombination, QuerySet};
    type PC = LinearCodePCS<UnivariateLigero<SF, MT, UP, ColH>, SF, UP, MT, ColH>;
    let pp: LigeroPCParams<SF, MT, ColH> = LigeroPCParams::new(128, 4, true, (), (), ());
    let rng = &mut StdRng::seed_from_u64(9);
    let (ck, vk) = PC::trim(&pp, 3, 0, None).unwrap();
    let p1 = LabeledPolynomial::new("p1".into(), UP::from_coefficients_vec(vec![sym("a0"), sym("a1")]), None, None);
    let p2 = LabeledPolynomial::new("p2".into(), UP::from_coefficients_vec(vec![sym("b0"), sym("b1")]), None, None);
    let polys = vec![p1, p2];
    let (comms, states) = PC::commit(&ck, &polys, Some(rng)).unwrap();
    let (z1, z2) = (sym("z1"), sym("z2"));
    let lc = LinearCombination::new("lc", vec![(SF::one(), "p1"), (SF::one(), "p2")]);
    let mut qs = QuerySet::new();
    qs.insert(("lc".to_string(), ("alpha".to_string(), z1)));
    qs.insert(("lc".to_string(), ("beta".to_string(), z2)));
    let mut ev = Evaluations::new();
    ev.insert(("lc".to_string(), z1), polys[0].evaluate(&z1) + polys[1].evaluate(&z1));
    ev.insert(("lc".to_string(), z2), polys[0].evaluate(&z2) + polys[1].evaluate(&z2));
    let mut sp = TapeSponge::new(&1);
    let proof = match PC::open_combinations(&ck, [&lc], &polys, &comms, &qs, &mut sp, &states, Some(rng)) { Ok(p) => p, Err(e) => { eprintln!("open_combinations err {e}"); return false } };
    let mut sv = TapeSponge::new(&1);
    match PC::check_combinations(&vk, [&lc], &comms, &qs, &ev, &proof, &mut sv, rng) { Ok(b) => b, Err(e) => { eprintln!("check_combinations err {e}"); false } }
}

/// C05-style N-tape driver on KZG10::batch_check: two honest openings, claimed values perturbed by symbolic d1,d2;
/// property: accepted under two independent randomizer tapes => both single checks accept.
pub fn h_kzg_batch_ntape() -> bool {
    use ark_poly_commit::kzg10::{KZG10, Powers, VerifierKey};
    type K = KZG10<ToyPairing, UP>;
    let rng = &mut StdRng::seed_from_u64(7);
    let pp = K::setup(3, false, rng).unwrap();
    let powers = Powers { powers_of_g: pp.powers_of_g[..=3].to_vec().into(), powers_of_gamma_g: (0..=3).map(|i| pp.powers_of_gamma_g[&i]).collect::<Vec<_>>().into() };
    let vk = VerifierKey { g: pp.powers_of_g[0], gamma_g: pp.powers_of_gamma_g[&0], h: pp.h, beta_h: pp.beta_h, prepared_h: pp.prepared_h.clone(), prepared_beta_h: pp.prepared_beta_h.clone() };
    use ark_std::UniformRand;
    let p1 = UP::from_coefficients_vec((0..3).map(|_| SF::rand(rng)).collect());
    let p2 = UP::from_coefficients_vec((0..3).map(|_| SF::rand(rng)).collect());
    let (z1, z2) = (SF::rand(rng), SF::rand(rng));
    let (c1, r1) = K::commit(&powers, &p1, None, None).unwrap();
    let (c2, r2) = K::commit(&powers, &p2, None, None).unwrap();
    let pf1 = K::open(&powers, &p1, z1, &r1).unwrap();
    let pf2 = K::open(&powers, &p2, z2, &r2).unwrap();
    let (d1, d2) = (sym("d1"), sym("d2"));
    let (v1, v2) = (p1.evaluate(&z1) + d1, p2.evaluate(&z2) + d2);
    let mut all = true;
    for seed in [101u64, 202u64] {
        let tape = &mut StdRng::seed_from_u64(seed);
        all &= K::batch_check(&vk, &[c1, c2], &[z1, z2], &[v1, v2], &[pf1, pf2], tape).unwrap();
    }
    let s1 = K::check(&vk, &c1, z1, v1, &pf1).unwrap();
    let s2 = K::check(&vk, &c2, z2, v2, &pf2).unwrap();
    // batch (all tapes) <=> conjunction of singles
    all == (s1 && s2)
}

/// C09-style: KZG10::setup with symbolic trapdoor/generators; every published element is the stated power.
pub fn h_kzg_srs() -> bool {
    use ark_poly_commit::kzg10::KZG10;
    use ark_ec::pairing::Pairing;
    type K = KZG10<ToyPairing, UP>;
    let rng = &mut StdRng::seed_from_u64(7);
    SYM_RNG.with(|c| c.set(true));
    let pp = K::setup(3, true, rng);
    SYM_RNG.with(|c| c.set(false));
    let pp = match pp { Ok(p) => p, Err(_) => return false };
    let mut ok = true;
    for i in 1..pp.powers_of_g.len() {
        ok &= ToyPairing::pairing(pp.powers_of_g[i], pp.h) == ToyPairing::pairing(pp.powers_of_g[i - 1], pp.beta_h);
    }
    for i in 1..pp.powers_of_gamma_g.len() {
        ok &= ToyPairing::pairing(pp.powers_of_gamma_g[&i], pp.h) == ToyPairing::pairing(pp.powers_of_gamma_g[&(i - 1)], pp.beta_h);
    }
    for i in 1..pp.neg_powers_of_h.len() {
        ok &= ToyPairing::pairing(pp.powers_of_g[1], pp.neg_powers_of_h[&i]) == ToyPairing::pairing(pp.powers_of_g[0], pp.neg_powers_of_h[&(i - 1)]);
    }
    ok
}
