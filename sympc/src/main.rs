mod catalog;
mod drivers;
mod engine;
mod schemes;
use catalog::{catalogue, Tier};
use engine::explore::{explore, install_panic_hook, run_once, Verdict};
use serde_json::json;

fn tier(s: &str) -> Tier {
    if s == "thorough" {
        Tier::Thorough
    } else {
        Tier::Quick
    }
}

fn main() {
    let args: Vec<String> = std::env::args().collect();
    if args.len() < 4 {
        eprintln!("usage: sympc list <PROP> <tier> | run <PROP> <tier> <id> <seed> | replay <PROP> <tier> <id> <seed> <inputs.json>");
        std::process::exit(2);
    }
    install_panic_hook();
    let (cmd, prop, t) = (args[1].as_str(), args[2].as_str(), tier(&args[3]));
    let seed: u64 = args.get(5).and_then(|s| s.parse().ok()).unwrap_or(1);
    let cat = catalogue(prop, t, seed);
    match cmd {
        "list" => {
            for e in &cat {
                println!("{}", e.id);
            }
        }
        "run" => {
            let id = &args[4];
            let ent = match cat.iter().find(|e| &e.id == id) {
                Some(e) => e,
                None => {
                    eprintln!("unknown config {}", id);
                    std::process::exit(2);
                }
            };
            let mut lim = ent.lim.clone();
            if let Ok(w) = std::env::var("SYMPC_WALL_S") {
                if let Ok(w) = w.parse::<f64>() {
                    lim.wall_s = w;
                }
            }
            let rep = explore(&*ent.run, seed, &lim);
            let mut j = rep.to_json();
            j["config"] = json!(ent.id);
            j["symbolic"] = json!(ent.symbolic);
            j["bounds"] = json!(ent.bounds);
            j["functions"] = json!(ent.funcs);
            j["twin"] = json!(ent.twin);
            j["seed"] = json!(seed);
            println!("RESULT {}", serde_json::to_string(&j).unwrap());
        }
        "replay" => {
            let id = &args[4];
            let ent = cat.iter().find(|e| &e.id == id).expect("unknown config");
            let txt = std::fs::read_to_string(&args[6]).expect("inputs file");
            let v: serde_json::Value = serde_json::from_str(&txt).expect("json");
            let inputs: Vec<ark_bls12_381::Fr> = v["inputs"]
                .as_array()
                .expect("inputs")
                .iter()
                .map(|s| {
                    let b: num_bigint::BigUint = s.as_str().unwrap().parse().unwrap();
                    ark_bls12_381::Fr::from(b)
                })
                .collect();
            let out = engine::explore::run_once_mode(&*ent.run, inputs, seed, true);
            let (verdict, key) = match &out.verdict {
                Verdict::Hold => ("holds", String::new()),
                Verdict::Discard(w) => ("discarded", w.clone()),
                Verdict::Violation { key, .. } => ("violation", key.clone()),
            };
            println!("REPLAY {}", json!({"verdict": verdict, "key": key, "branches": out.path.len()}));
        }
        _ => std::process::exit(2),
    }
}
