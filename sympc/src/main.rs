mod engine;
use engine::explore::{explore, sym, Limits, Verdict};
use engine::sf::SF;
use ark_ff::{Field, Zero, One};
use ark_poly_commit::ipa_pc::SuccinctCheckPolynomial;

fn h_succinct(k: usize) -> Verdict {
    let ch: Vec<SF> = (0..k).map(|i| sym(&format!("u{}", i))).collect();
    let z = sym("z");
    let sp = SuccinctCheckPolynomial(ch);
    let co = sp.compute_coeffs();
    let mut acc = SF::zero();
    for c in co.iter().rev() {
        acc = acc * z + c;
    }
    Verdict::check(sp.evaluate(z) == acc, "succinct", "evaluate != horner")
}
fn h_kzg_field(d: usize) -> Verdict {
    use ark_poly::{univariate::DensePolynomial, DenseUVPolynomial, Polynomial};
    let coeffs: Vec<SF> = (0..=d).map(|i| sym(&format!("c{}", i))).collect();
    let z = sym("z");
    let beta = SF::from(0x1234_5678_9abc_def1u64) * SF::from(0xfeed_beef_dead_cafeu64);
    let p = DensePolynomial::from_coefficients_vec(coeffs.clone());
    let divisor = DensePolynomial::from_coefficients_vec(vec![-z, SF::one()]);
    let w = &p / &divisor;
    let v = p.evaluate(&z);
    let lhs = p.evaluate(&beta) - v;
    let rhs = w.evaluate(&beta) * (beta - z);
    let mut acc = SF::zero();
    for c in coeffs.iter().rev() {
        acc = acc * z + c;
    }
    Verdict::check(lhs == rhs && v == acc, "kzgfield", "")
}
fn main() {
    let which = std::env::args().nth(1).unwrap_or("succ".into());
    let lim = Limits::quick();
    let r = match which.as_str() {
        "succ" => explore(&|| h_succinct(5), 1, &lim),
        _ => explore(&|| h_kzg_field(3), 1, &lim),
    };
    println!("{}", serde_json::to_string_pretty(&r.to_json()).unwrap());
    let _ = SF::ONE;
}
