//! Configuration catalogue: which drivers run for which property, with which bounds.
use crate::drivers::c01::{self, Mode};
use crate::drivers::c02::{self, Kind};
use crate::drivers::c03::{self, LcMut};
use crate::drivers::c04::{self, Attack};
use crate::drivers::c05::{self, ListMut};
use crate::drivers::c06::{self, LcShape, Pert, T};
use crate::drivers::c07;
use crate::drivers::c08;
use crate::drivers::c09::{self, TrimReq};
use crate::drivers::c10;
use crate::drivers::c11::{self, Op};
use crate::drivers::c12;
use crate::drivers::c13;
use crate::drivers::c14;
use crate::drivers::c15;
use crate::drivers::c16;
use crate::drivers::c17::{self, Lookup};
use crate::drivers::c19;
use crate::drivers::inherent::{self, Pert as IPert};
use crate::drivers::common::{Cfg, PolySpec};
use crate::engine::explore::{Limits, Verdict};
use crate::schemes::*;

#[derive(Clone, Copy, PartialEq, Debug)]
pub enum Tier {
    Quick,
    Thorough,
}

pub struct Entry {
    pub id: String,
    pub run: Box<dyn Fn() -> Verdict>,
    /// what is symbolic (solver-quantified) in this configuration
    pub symbolic: String,
    /// the size bounds of this configuration
    pub bounds: String,
    /// library entry points the driver executes symbolically
    pub funcs: Vec<&'static str>,
    pub lim: Limits,
    /// vacuity twin: a deliberately wrong assertion; the exploration must report a violation
    pub twin: bool,
}

fn lim(t: Tier) -> Limits {
    match t {
        Tier::Quick => Limits::quick(),
        Tier::Thorough => Limits::thorough(),
    }
}

const PC_FUNCS: [&str; 7] = ["PolynomialCommitment::setup", "trim", "commit", "open", "check", "batch_open", "batch_check"];

fn e<F: Fn() -> Verdict + 'static>(id: String, t: Tier, symbolic: &str, bounds: String, f: F) -> Entry {
    Entry { id, run: Box::new(f), symbolic: symbolic.to_string(), bounds, funcs: PC_FUNCS.to_vec(), lim: lim(t), twin: false }
}

fn std_size<S: Sch>(t: Tier, hiding: usize) -> Size {
    let (maxd, sup) = if t == Tier::Quick { (4, 3) } else { (6, 5) };
    if S::UNIVARIATE {
        Size::uni(maxd, sup, hiding)
    } else if S::NAME == "pst13" {
        Size::mv(2, 2, hiding)
    } else if S::NAME == "brakedown-rec" {
        // 8 evaluations in 2 rows: message length 4 >= base length 3, one recursion level (A 4x1, Reed-Solomon
        // 1 -> 2, B 2x1), codeword length 7 (the 4-variable shape, codeword 13, is used by C08/C10/C13 directly)
        Size::mv(3, 1, hiding)
    } else {
        Size::mv(2, 1, hiding)
    }
}

fn c01_family<S: Sch>(t: Tier, seed: u64, out: &mut Vec<Entry>) {
    let name = S::NAME;
    let sym = "polynomial coefficients/evaluations, evaluation points, sponge challenges, blinding randomness";
    let sup = std_size::<S>(t, 0).supported;
    let mk = |polys: Vec<PolySpec>, hiding: usize| -> Cfg {
        let mut c = Cfg::new(std_size::<S>(t, hiding), polys);
        c.seed = seed;
        c
    };
    let len = if S::UNIVARIATE { sup } else { 3 }; // univariate: `sup` coefficients (degree sup-1); pst13: degree 2
    let quick = t == Tier::Quick;
    let mut add = |id: &str, cfg: Cfg, mode: Mode| {
        let b = format!("{:?}; polys {:?}; points {}; queries {:?}", cfg.sz, cfg.polys, cfg.npoints, cfg.queries);
        let c2 = cfg.clone();
        let mut en = e(format!("{}/{}", name, id), t, sym, b, move || c01::honest::<S>(&c2, mode));
        if quick {
            en.lim.wall_s = 45.0;
        }
        out.push(en);
    };
    // one polynomial, one point: everything symbolic
    add("1p1z-single", mk(vec![PolySpec::new(len)], 0), Mode::Single);
    if !quick {
        add("1p1z-batch", mk(vec![PolySpec::new(len)], 0), Mode::Batch);
    }
    if S::HIDING && name != "hyrax" {
        let mut c = mk(vec![PolySpec::new(len).hide(1)], 1);
        c.rng_nonzero = quick;
        add("1p1z-hide1", c, Mode::Single);
        if !quick && S::BOUNDS {
            add("1p1z-hide1-bound", mk(vec![PolySpec::new(len).hide(1).bound(len - 1)], 1), Mode::Single);
        }
    }
    if S::HIDING && name != "hyrax" {
        // one opening that mixes hiding and non-hiding polynomials, in both orders
        let mut c = mk(vec![PolySpec::new(2).conc().hide(1), PolySpec::new(2).conc()], 1);
        c.rng_nonzero = true;
        add("2p1z-hiding-then-plain", c, Mode::Single);
        let mut c = mk(vec![PolySpec::new(2).conc(), PolySpec::new(2).conc().hide(1)], 1);
        c.rng_nonzero = true;
        add("2p1z-plain-then-hiding", c, Mode::Batch);
        // a batch whose proofs are of both kinds: a hiding polynomial at one point label, a plain one at another
        for (tag, first_hides) in [("hiding@z0-plain@z1", true), ("plain@z0-hiding@z1", false)] {
            let (a, b) = (PolySpec::new(2).conc().hide(1), PolySpec::new(2).conc());
            let mut c = mk(if first_hides { vec![a, b] } else { vec![b, a] }, 1).points(2, vec![(0, 0), (1, 1)]);
            c.rng_nonzero = true;
            add(&format!("2p2z-batch-{}", tag), c, Mode::Batch);
        }
        // the zero polynomial with a hiding bound, alone and next to a non-zero one
        let mut c = mk(vec![PolySpec::new(2).zero().hide(1)], 1);
        c.rng_nonzero = true;
        add("1p1z-zero-poly-hide1", c, Mode::Single);
        let mut c = mk(vec![PolySpec::new(2).conc().hide(1), PolySpec::new(2).zero().hide(1)], 1);
        c.rng_nonzero = true;
        add("2p1z-zero-poly-hide1-batch", c, Mode::Batch);
    }
    // the zero polynomial: alone, and between non-zero ones in one opening
    add("1p1z-zero-poly", mk(vec![PolySpec::new(2).zero()], 0), Mode::Single);
    add("3p1z-zero-poly-middle", mk(vec![PolySpec::new(2).conc(), PolySpec::new(2).zero(), PolySpec::new(2).conc()], 0), Mode::Batch);
    if S::BOUNDS {
        add("1p1z-zero-poly-bound", mk(vec![PolySpec::new(2).zero().bound(1)], 0), Mode::Single);
        // a degree-0 polynomial (symbolic constant) with a degree bound in front of another polynomial, in one
        // opening and at its own point label of a batch
        add("2p1z-const-bounded-then-plain", mk(vec![PolySpec::new(1).bound(1), PolySpec::new(2).conc()], 0), Mode::Single);
        add("2p2z-const-bounded-then-plain-batch", mk(vec![PolySpec::new(1).bound(1), PolySpec::new(2).conc()], 0).points(2, vec![(0, 0), (1, 1)]), Mode::Batch);
        add("2p1z-zero-bounded-then-plain", mk(vec![PolySpec::new(2).zero().bound(1), PolySpec::new(2).conc()], 0), Mode::Single);
    }
    if S::BOUNDS {
        // one opening over polynomials with different degree bounds (and one without)
        let mut c = mk(vec![PolySpec::new(2).conc().bound(1), PolySpec::new(2).conc().bound(sup), PolySpec::new(2).conc()], 0);
        c.enforced = Some(vec![1, sup]);
        add("3p1z-two-bounds", c.clone(), Mode::Single);
        add("3p1z-two-bounds-batch", c, Mode::Batch);
        add("1p1z-bound-eq", mk(vec![PolySpec::new(len).bound(len - 1)], 0), Mode::Single);
        if !quick {
            add("1p1z-bound-sup", mk(vec![PolySpec::new(len - 1).bound(sup)], 0), Mode::Single);
        }
    }
    // two polynomials at one label, list orders permuted independently on both sides;
    // quick: concrete-random coefficients (label matching does not depend on them)
    {
        let ps = |sym: bool| if sym { PolySpec::new(2) } else { PolySpec::new(2).conc() };
        let mut c = mk(vec![ps(!quick), ps(!quick)], 0);
        c.rev_prover = true;
        add("2p1z-batch-revprover", c, Mode::Batch);
        if !quick {
            add("2p1z-batch", mk(vec![ps(true), ps(true)], 0), Mode::Batch);
            let mut c = mk(vec![ps(true), ps(true)], 0);
            c.rev_verifier = true;
            add("2p1z-batch-revverifier", c, Mode::Batch);
        } else {
            let mut c = mk(vec![ps(false), ps(false), ps(false)], 0).points(2, vec![(0, 0), (1, 0), (2, 1), (0, 1)]);
            c.rev_verifier = true;
            add("3p2z-batch-revverifier", c, Mode::Batch);
        }
    }
    // one polynomial at two labels whose points are independent symbolic values (aliasing is solver-generated)
    {
        let c = mk(vec![PolySpec::new(2)], 0).points(2, vec![(0, 0), (0, 1)]);
        add("1p2z-alias-batch", c, Mode::Batch);
    }
    // several point labels that carry one point value (not left to the solver)
    {
        let mut c = mk(vec![PolySpec::new(2).conc(), PolySpec::new(2).conc()], 0).points(2, vec![(0, 0), (1, 1)]);
        c.share_point = true;
        add("2p2z-shared-point-batch", c, Mode::Batch);
        let mut c = mk(vec![PolySpec::new(2).conc(), PolySpec::new(2).conc()], 0).points(3, vec![(0, 0), (1, 0), (0, 1), (1, 2)]);
        c.share_point = true;
        add("2p3z-shared-point-batch", c, Mode::Batch);
    }
    // single opening of three polynomials listed in descending label order on both sides
    {
        let mut c = mk(vec![PolySpec::new(2).conc(), PolySpec::new(2).conc(), PolySpec::new(2).conc()], 0);
        c.rev_prover = true;
        c.rev_verifier = true;
        add("3p1z-single-descending-labels", c, Mode::Single);
    }
    if name == "ligero-uni" {
        // a coefficient matrix with more than two rows (a low security parameter makes few column openings suffice)
        // (lengths that are and are not multiples of the row count: 64, 65, 67 give 4 rows, 256/257 give 8)
        for n in if quick { vec![64usize, 65, 67] } else { vec![64usize, 65, 66, 67, 256, 257, 259] } {
            let mut c = mk(vec![PolySpec::new(n).conc()], 0);
            c.sz = Size::uni(300, 300, 0);
            c.sz.ligero = (20, 4, true);
            add(&format!("1p1z-{}coeffs-lambda20", n), c, Mode::Single);
        }
    }
    if matches!(name, "ligero-uni" | "ligero-ml") {
        // parameters without the well-formedness check, two operations on one sponge
        let mut c = mk(vec![PolySpec::new(2).conc(), PolySpec::new(2).conc()], 0).points(2, vec![(0, 0), (1, 1)]);
        c.sz.ligero.2 = false;
        add("2p2z-no-wellformedness", c, Mode::Single);
    }
}

fn c02_family<S: Sch>(t: Tier, seed: u64, out: &mut Vec<Entry>) {
    let name = S::NAME;
    let sym = "polynomial coefficients/evaluations, points, sponge challenges, blinding randomness, the perturbation delta (!= 0), the replacement polynomial";
    let quick = t == Tier::Quick;
    let sup = std_size::<S>(t, 0).supported;
    let len = if S::UNIVARIATE { sup } else { 3 };
    let mk = |polys: Vec<PolySpec>, hiding: usize| -> Cfg {
        let mut c = Cfg::new(std_size::<S>(t, hiding), polys);
        c.seed = seed;
        c
    };
    let mut add = |id: &str, cfg: Cfg, mode: Mode, kind: Kind, twin: bool| {
        let b = format!("{:?}; polys {:?}; points {}; queries {:?}; perturbation {:?}", cfg.sz, cfg.polys, cfg.npoints, cfg.queries, kind);
        let c2 = cfg.clone();
        let mut en = e(format!("{}/{}", name, id), t, sym, b, move || c02::perturbed::<S>(&c2, mode, kind, twin));
        en.twin = twin;
        if quick {
            en.lim.wall_s = 45.0;
        }
        out.push(en);
    };
    let kzg_like = matches!(name, "marlin" | "sonic" | "pst13");
    let lincode = matches!(name, "ligero-uni" | "ligero-ml" | "brakedown" | "brakedown-rec");
    // value perturbations
    add("1p1z-val", mk(vec![PolySpec::new(len)], 0), Mode::Single, Kind::Value(0), false);
    add("2p1z-val@1", mk(vec![PolySpec::new(2), PolySpec::new(2)], 0), Mode::Single, Kind::Value(1), false);
    add("1p2z-batch-val@1", mk(vec![PolySpec::new(2)], 0).points(2, vec![(0, 0), (0, 1)]), Mode::Batch, Kind::Value(1), false);
    // the zero polynomial (identity commitment in the homomorphic schemes): a non-zero claimed value, alone and
    // next to a non-zero polynomial
    add("1p1z-val-zero-poly", mk(vec![PolySpec::new(2).zero()], 0), Mode::Single, Kind::Value(0), false);
    add("2p1z-val@1-zero-poly", mk(vec![PolySpec::new(2).conc(), PolySpec::new(2).zero()], 0), Mode::Single, Kind::Value(1), false);
    add("2p1z-val@0-next-to-zero-poly", mk(vec![PolySpec::new(2).conc(), PolySpec::new(2).zero()], 0), Mode::Batch, Kind::Value(0), false);
    {
        // two point labels with one (symbolic) point value: a false value at either label
        for pos in 0..2usize {
            let mut c = mk(vec![PolySpec::new(2).conc(), PolySpec::new(2).conc()], 0).points(2, vec![(0, 0), (1, 1)]);
            c.share_point = true;
            add(&format!("2p2z-shared-point-batch-val@{}", pos), c, Mode::Batch, Kind::Value(pos), false);
        }
    }
    // every position of a batched opening; the two point labels carry independent symbolic points, so that the
    // shared-point-value case is the solver's to find wherever the code compares points
    add("1p2z-batch-val@0", mk(vec![PolySpec::new(2)], 0).points(2, vec![(0, 0), (0, 1)]), Mode::Batch, Kind::Value(0), false);
    add("2p2z-split-batch-val@0", mk(vec![PolySpec::new(2).conc(), PolySpec::new(2).conc()], 0).points(2, vec![(0, 0), (1, 1)]), Mode::Batch, Kind::Value(0), false);
    add("2p2z-split-batch-val@1", mk(vec![PolySpec::new(2).conc(), PolySpec::new(2).conc()], 0).points(2, vec![(0, 0), (1, 1)]), Mode::Batch, Kind::Value(1), false);
    if S::HIDING && name != "hyrax" {
        let mut c = mk(vec![PolySpec::new(2).hide(1)], 1);
        c.rng_nonzero = true;
        add("1p1z-hide1-val", c, Mode::Single, Kind::Value(0), false);
    }
    if S::BOUNDS {
        add("1p1z-bound-val", mk(vec![PolySpec::new(2).bound(1)], 0), Mode::Single, Kind::Value(0), false);
    }
    if !quick {
        for pos in 0..4usize {
            add(&format!("2p2z-batch-val@{}", pos), mk(vec![PolySpec::new(2), PolySpec::new(2)], 0).points(2, vec![(0, 0), (1, 0), (0, 1), (1, 1)]), Mode::Batch, Kind::Value(pos), false);
        }
    }
    // point perturbations (schemes whose challenges do not depend on the point)
    if kzg_like || lincode {
        add("1p1z-point", mk(vec![PolySpec::new(len)], 0), Mode::Single, Kind::Point(0), false);
        if !S::UNIVARIATE {
            add("1p1z-point@1", mk(vec![PolySpec::new(len)], 0), Mode::Single, Kind::Point(1), false);
        }
    }
    // commitment replaced by the commitment of another polynomial
    if kzg_like || lincode {
        add("1p1z-comm", mk(vec![PolySpec::new(2)], 0), Mode::Single, Kind::Comm, false);
        if !quick {
            add("1p2z-batch-comm", mk(vec![PolySpec::new(2)], 0).points(2, vec![(0, 0), (0, 1)]), Mode::Batch, Kind::Comm, false);
        }
    }
    if matches!(name, "ligero-uni" | "ligero-ml") {
        // parameters without the well-formedness check
        let mut c = mk(vec![PolySpec::new(2), PolySpec::new(2)], 0);
        c.sz.ligero.2 = false;
        add("2p1z-val@0-no-wellformedness", c.clone(), Mode::Single, Kind::Value(0), false);
        add("2p1z-val@1-no-wellformedness", c, Mode::Single, Kind::Value(1), false);
    }
    // vacuity twin: the negated assertion must be violated
    if name != "hyrax" && name != "ipa" {
        add("twin-1p1z-val", mk(vec![PolySpec::new(2)], 0), Mode::Single, Kind::Value(0), true);
    }
    // check_combinations: claimed value of a combination with a constant term, queried at two points (C06's driver;
    // IPA's challenges hash the perturbed data: decided through C10)
    if name != "ipa" {
        for q in [0usize, 1] {
            let mut c = Cfg::new(std_size::<S>(t, 0), vec![PolySpec::new(2).conc(), PolySpec::new(2).conc()]);
            c.seed = seed;
            c.npoints = 2;
            c.queries = vec![];
            let shape = LcShape { lcs: vec![vec![T::P(0), T::P(1), T::One]], queries: vec![(0, 0), (0, 1)] };
            let b = format!("{:?}; {:?}; claimed value of query {} perturbed", c.sz, shape, q);
            let mut en = e(format!("{}/comb-2z-value@{}", name, q), t, sym, b, move || c06::run::<S>(&c, &shape, Pert::Value(q), false));
            if quick { en.lim.wall_s = 45.0; }
            out.push(en);
        }
    }
}

fn c04_family<S: Sch<P = UP>>(t: Tier, seed: u64, out: &mut Vec<Entry>)
where
    crate::drivers::common::CommOf<S>: c04::ShiftParts,
{
    let name = S::NAME;
    let quick = t == Tier::Quick;
    let f = vec!["kzg10::KZG10::check_degrees_and_bounds", "InnerProductArgPC::check_degrees_and_bounds", "MarlinKZG10/SonicKZG10/InnerProductArgPC::{trim,commit,open,check}", "Marlin::accumulate_commitments_and_values", "SonicKZG10::{accumulate_elems,check_elems}", "VerifierKey::get_shift_power"];
    let (maxd, sup) = if quick { (5, 3) } else { (7, 5) };
    let mk = |polys: Vec<PolySpec>, enforced: Option<Vec<usize>>| -> Cfg {
        let mut c = Cfg::new(Size::uni(maxd, sup, 1), polys);
        c.seed = seed;
        c.enforced = enforced;
        c
    };
    let mut add = |id: &str, cfg: Cfg, run: Box<dyn Fn(&Cfg) -> Verdict>, twin: bool| {
        let b = format!("{:?}; polys {:?}; enforced {:?}", cfg.sz, cfg.polys, cfg.enforced);
        let c2 = cfg.clone();
        let mut en = e(format!("{}/{}", name, id), t, "polynomial coefficients (the degree is value-dependent), point, challenges", b, move || run(&c2));
        en.funcs = f.clone();
        en.twin = twin;
        if quick { en.lim.wall_s = 45.0; }
        out.push(en);
    };
    // admission: degree exactly around the bound (len = d+2 coefficients: degree d+1 unless the top one vanishes)
    for d in [1usize, sup - 1] {
        add(&format!("admit-deg-vs-bound-d{}", d), mk(vec![PolySpec::new(d + 2).bound(d)], Some(vec![d, sup])), Box::new(|c| c04::admission::<S>(c, true)), false);
        add(&format!("admit-deg-vs-bound-d{}-hiding", d), mk(vec![PolySpec::new(d + 2).bound(d).hide(1)], Some(vec![sup, d, d])), Box::new(|c| c04::admission::<S>(c, true)), false);
    }
    if name != "ipa" {
        // IPA enforces no list of bounds: any d <= supported is admissible there
        add("admit-bound-not-enforced", mk(vec![PolySpec::new(2).bound(2)], Some(vec![1, 3])), Box::new(|c| c04::admission::<S>(c, false)), false);
        add("admit-no-bounds-enforced", mk(vec![PolySpec::new(2).bound(2)], Some(vec![])), Box::new(|c| c04::admission::<S>(c, false)), false);
    }
    // IPA rounds the supported degree up to the next 2^k - 1: the first unsupported bound lies above that
    let first_unsupported = if name == "ipa" { (sup + 1).next_power_of_two() } else { sup + 1 };
    add("admit-bound-above-supported", mk(vec![PolySpec::new(2).bound(first_unsupported)], Some(vec![sup])), Box::new(|c| c04::admission::<S>(c, false)), false);
    add("admit-bound-eq-supported", mk(vec![PolySpec::new(sup + 2).bound(sup)], Some(vec![sup])), Box::new(|c| c04::admission::<S>(c, true)), false);
    if name == "ipa" {
        // IPA's challenges hash the shifted value: with another label the clean verifier's challenges are other oracle
        // outputs, acceptance needs solver-chosen oracle outputs and is filtered by the natural-oracle replay; a verifier
        // that does not use the label accepts deterministically and is reported
        add("relabel-second-of-two", mk(vec![PolySpec::new(2).conc().bound(sup), PolySpec::new(2).conc().bound(sup)], None), Box::new(move |c| c04::verifier_side::<S>(c, Attack::RelabelAt(1, 1), false)), false);
        add("relabel-up", mk(vec![PolySpec::new(2).conc().bound(sup - 1)], None), Box::new(move |c| c04::verifier_side::<S>(c, Attack::Relabel(sup), false)), false);
    }
    if name != "ipa" {
        // verifier side (IPA's challenges hash the shifted value: decided through C10)
        let (d1, d2) = (sup - 1, sup);
        add("relabel-up", mk(vec![PolySpec::new(2).bound(d1)], Some(vec![d1, d2])), Box::new(move |c| c04::verifier_side::<S>(c, Attack::Relabel(d2), false)), false);
        add("relabel-down", mk(vec![PolySpec::new(2).bound(d2)], Some(vec![d1, d2])), Box::new(move |c| c04::verifier_side::<S>(c, Attack::Relabel(d1), false)), false);
        add("relabel-up-hiding", mk(vec![PolySpec::new(2).bound(d1).hide(1)], Some(vec![d1, d2])), Box::new(move |c| c04::verifier_side::<S>(c, Attack::Relabel(d2), false)), false);
        add("label-drop", mk(vec![PolySpec::new(2).bound(d1)], Some(vec![d1, d2])), Box::new(move |c| c04::verifier_side::<S>(c, Attack::LabelDrop, false)), false);
        // a label the keys were not trimmed for, lying in a gap of the enforced set; and a mislabelled commitment
        // listed after one that genuinely carries the bound both were made under
        add("relabel-gap", mk(vec![PolySpec::new(sup + 1).bound(sup)], Some(vec![1, sup])), Box::new(move |c| c04::verifier_side::<S>(c, Attack::Relabel(sup - 1), false)), false);
        add("relabel-gap-below", mk(vec![PolySpec::new(2).bound(sup)], Some(vec![sup - 1, sup])), Box::new(move |c| c04::verifier_side::<S>(c, Attack::Relabel(1), false)), false);
        add("relabel-second-of-two", mk(vec![PolySpec::new(2).conc().bound(sup), PolySpec::new(sup + 1).bound(sup)], Some(vec![1, sup])), Box::new(move |c| c04::verifier_side::<S>(c, Attack::RelabelAt(1, 1), false)), false);
        add("relabel-second-of-two-hiding", mk(vec![PolySpec::new(2).conc().bound(sup).hide(1), PolySpec::new(3).bound(sup).hide(1)], Some(vec![1, sup])), Box::new(move |c| c04::verifier_side::<S>(c, Attack::RelabelAt(1, 1), false)), false);
        add("label-added-not-enforced", mk(vec![PolySpec::new(sup + 1)], Some(vec![sup])), Box::new(move |c| c04::verifier_side::<S>(c, Attack::Relabel(sup - 1), false)), false);
        add("label-added-enforced", mk(vec![PolySpec::new(sup + 1)], Some(vec![sup - 1, sup])), Box::new(move |c| c04::verifier_side::<S>(c, Attack::Relabel(sup - 1), false)), false);
        add("twin-relabel", mk(vec![PolySpec::new(2).bound(d1)], Some(vec![d1, d2])), Box::new(move |c| c04::verifier_side::<S>(c, Attack::Relabel(d2), true)), true);
        if name == "marlin" {
            add("shift-identity", mk(vec![PolySpec::new(sup + 1)], Some(vec![d1, d2])), Box::new(move |c| c04::verifier_side::<S>(c, Attack::ShiftIdentity(d1), false)), false);
            add("shift-drop", mk(vec![PolySpec::new(2).bound(d1)], Some(vec![d1, d2])), Box::new(move |c| c04::verifier_side::<S>(c, Attack::ShiftDrop, false)), false);
            add("shift-swap", mk(vec![PolySpec::new(2).bound(d1), PolySpec::new(2).conc().bound(d1)], Some(vec![d1, d2])), Box::new(move |c| c04::verifier_side::<S>(c, Attack::ShiftSwap, false)), false);
        }
    }
}

fn c11_family<S: Sch>(t: Tier, seed: u64, out: &mut Vec<Entry>) {
    let name = S::NAME;
    let quick = t == Tier::Quick;
    let f = vec!["PolynomialCommitment::{open,check,batch_open,batch_check,open_combinations,check_combinations}", "CryptographicSponge::{absorb,squeeze_*} call schedule of every scheme"];
    let sym = "sponge pre-state, all challenges, points, blinding; one polynomial symbolic in 1-polynomial histories";
    let mk = |polys: Vec<PolySpec>, npoints: usize, queries: Vec<(usize, usize)>| -> Cfg {
        let mut c = Cfg::new(std_size::<S>(t, 0), polys);
        c.seed = seed;
        c.npoints = npoints;
        c.queries = queries;
        c.rng_nonzero = true;
        c
    };
    let conc = |n: usize| -> Vec<PolySpec> { (0..n).map(|_| PolySpec::new(2).conc()).collect() };
    let mut add = |id: &str, cfg: Cfg, run: Box<dyn Fn(&Cfg) -> Verdict>, twin: bool| {
        let b = format!("{:?}; polys {:?}; points {}; queries {:?}", cfg.sz, cfg.polys, cfg.npoints, cfg.queries);
        let c2 = cfg.clone();
        let mut en = e(format!("{}/{}", name, id), t, sym, b, move || run(&c2));
        en.funcs = f.clone();
        en.twin = twin;
        if quick { en.lim.wall_s = 45.0; }
        out.push(en);
    };
    let two = vec![(0, 0), (1, 0), (1, 1)];
    add("hist-o", mk(vec![PolySpec::new(2)], 1, vec![(0, 0)]), Box::new(|c| c11::lockstep::<S>(c, &[Op::Open(0)])), false);
    add("hist-oo", mk(conc(2), 2, two.clone()), Box::new(|c| c11::lockstep::<S>(c, &[Op::Open(0), Op::Open(1)])), false);
    add("hist-ob", mk(conc(2), 2, two.clone()), Box::new(|c| c11::lockstep::<S>(c, &[Op::Open(1), Op::Batch])), false);
    {
        // two polynomials opened at one point, listed in descending label order on both sides, then a batch
        let mut c = mk(conc(2), 2, vec![(0, 0), (1, 0), (1, 1)]);
        c.rev_prover = true;
        c.rev_verifier = true;
        add("hist-ob-descending-labels", c, Box::new(|c| c11::lockstep::<S>(c, &[Op::Open(0), Op::Batch])), false);
    }
    add("hist-bo", mk(conc(2), 2, two.clone()), Box::new(|c| c11::lockstep::<S>(c, &[Op::Batch, Op::Open(0)])), false);
    add("hist-oc", mk(conc(2), 2, two.clone()), Box::new(|c| c11::lockstep::<S>(c, &[Op::Open(0), Op::Comb])), false);
    add("hist-obc", mk(conc(2), 2, two.clone()), Box::new(|c| c11::lockstep::<S>(c, &[Op::Open(0), Op::Batch, Op::Comb])), false);
    if !quick {
        add("hist-cbo", mk(conc(2), 2, two.clone()), Box::new(|c| c11::lockstep::<S>(c, &[Op::Comb, Op::Batch, Op::Open(1)])), false);
        add("hist-oo-sym", mk(vec![PolySpec::new(2), PolySpec::new(2)], 2, two.clone()), Box::new(|c| c11::lockstep::<S>(c, &[Op::Open(0), Op::Open(1)])), false);
    }
    if S::HIDING && name != "hyrax" {
        let mut c = mk(vec![PolySpec::new(2).conc().hide(1), PolySpec::new(2).conc().hide(1)], 2, two.clone());
        c.sz = std_size::<S>(t, 1);
        add("hist-ob-hiding", c, Box::new(|c| c11::lockstep::<S>(c, &[Op::Open(1), Op::Batch])), false);
    }
    if S::BOUNDS {
        let sup = std_size::<S>(t, 0).supported;
        add("hist-ob-bounds", mk(vec![PolySpec::new(2).conc().bound(sup - 1), PolySpec::new(2).conc()], 2, two.clone()), Box::new(|c| c11::lockstep::<S>(c, &[Op::Open(1), Op::Batch])), false);
        // a degree-0 polynomial (symbolic constant, zero included) and the zero polynomial under a degree bound, each
        // followed by further operations on the same sponge
        add("hist-ob-const-bounded", mk(vec![PolySpec::new(1).bound(sup - 1), PolySpec::new(2).conc()], 2, two.clone()), Box::new(|c| c11::lockstep::<S>(c, &[Op::Open(0), Op::Batch])), false);
        add("hist-bo-zero-bounded", mk(vec![PolySpec::new(2).zero().bound(sup - 1), PolySpec::new(2).conc()], 2, two.clone()), Box::new(|c| c11::lockstep::<S>(c, &[Op::Batch, Op::Open(0)])), false);
    }
    if matches!(name, "ligero-uni" | "ligero-ml") {
        let mut c = mk(conc(2), 2, two.clone());
        c.sz.ligero.2 = false;
        add("hist-oo-no-wellformedness", c, Box::new(|c| c11::lockstep::<S>(c, &[Op::Open(0), Op::Open(1)])), false);
    }
    {
        // rejection under another transcript (concrete non-constant polynomials). Hyrax included: its verifier
        // ignores the claimed value (C02 finding) but its equations depend on the transcript challenge.
        let mut c = mk(conc(1), 1, vec![(0, 0)]);
        c.sym_ch = false;
        add("prestate-differs", c.clone(), Box::new(|c| c11::prestate::<S>(c, false)), false);
        add("twin-prestate", c, Box::new(|c| c11::prestate::<S>(c, true)), true);
        add("proofs-transposed", mk(conc(2), 2, vec![(0, 0), (1, 1)]), Box::new(|c| c11::swapped::<S>(c)), false);
        if matches!(name, "ligero-uni" | "ligero-ml" | "brakedown-rec") {
            // without the well-formedness vector the only transcript-dependent part of a proof is the set of opened positions
            let mut c = mk(conc(1), 1, vec![(0, 0)]);
            c.sym_ch = false;
            c.sz.ligero.2 = false;
            c.sym_points = false;
            add("prestate-differs-no-wellformedness", c, Box::new(|c| c11::prestate_mode::<S>(c, false, true)), false);
            let mut c = mk(conc(2), 2, vec![(0, 0), (1, 1)]);
            c.sz.ligero.2 = false;
            add("proofs-transposed-no-wellformedness", c, Box::new(|c| c11::swapped::<S>(c)), false);
        }
    }
}

fn c05_family<S: Sch>(t: Tier, seed: u64, out: &mut Vec<Entry>) {
    let name = S::NAME;
    let quick = t == Tier::Quick;
    let f = vec!["PolynomialCommitment::{batch_open,batch_check,check}", "kzg10::KZG10::batch_check", "Marlin::combine_and_normalize", "SonicKZG10::batch_check", "InnerProductArgPC::batch_check", "MarlinPST13::batch_check"];
    let sym = "one free error term per claimed evaluation (zero included), points, sponge challenges; verifier randomness: N concrete tapes";
    let mk = |npolys: usize, npoints: usize, queries: Vec<(usize, usize)>| -> Cfg {
        let mut c = Cfg::new(std_size::<S>(t, 0), (0..npolys).map(|_| PolySpec::new(2).conc()).collect());
        c.seed = seed;
        c.npoints = npoints;
        c.queries = queries;
        c.sym_rng = name == "hyrax";
        c.rng_nonzero = true;
        c
    };
    let mut add = |id: &str, cfg: Cfg, run: Box<dyn Fn(&Cfg) -> Verdict>| {
        let b = format!("{:?}; polys {}; points {}; queries {:?}", cfg.sz, cfg.polys.len(), cfg.npoints, cfg.queries);
        let c2 = cfg.clone();
        let mut en = e(format!("{}/{}", name, id), t, sym, b, move || run(&c2));
        en.funcs = f.clone();
        if quick { en.lim.wall_s = 45.0; }
        out.push(en);
    };
    // error-term configurations: challenges take their natural values and the points are concrete, so the
    // two decisions are linear systems in the symbolic errors (cancelling error vectors are then found
    // or excluded by the solver); one variant keeps points and challenges symbolic
    let lin = |mut c: Cfg| -> Cfg { c.sym_ch = false; c.sym_points = false; c };
    add("equiv-2p2z-cross", lin(mk(2, 2, vec![(0, 0), (1, 0), (0, 1), (1, 1)])), Box::new(|c| c05::equiv::<S>(c, 3, false)));
    add("equiv-1p2z", lin(mk(1, 2, vec![(0, 0), (0, 1)])), Box::new(|c| c05::equiv::<S>(c, 3, false)));
    add("equiv-1p2z-symbolic-points", mk(1, 2, vec![(0, 0), (0, 1)]), Box::new(|c| c05::equiv::<S>(c, 3, false)));
    // several point labels carrying one point value: the claims at the shared point are still separate claims
    let shared = |mut c: Cfg| -> Cfg { c.share_point = true; c };
    add("equiv-1p2z-shared-point", shared(lin(mk(1, 2, vec![(0, 0), (0, 1)]))), Box::new(|c| c05::equiv::<S>(c, 3, false)));
    add("equiv-2p2z-shared-point", shared(lin(mk(2, 2, vec![(0, 0), (1, 1)]))), Box::new(|c| c05::equiv::<S>(c, 3, false)));
    add("equiv-2p3z-shared-point", shared(lin(mk(2, 3, vec![(0, 0), (1, 1), (0, 2), (1, 2)]))), Box::new(|c| c05::equiv::<S>(c, 4, false)));
    add("equiv-honest-3p3z", mk(3, 3, vec![(0, 0), (1, 0), (1, 1), (2, 1), (2, 2), (0, 2)]), Box::new(|c| c05::equiv::<S>(c, 2, true)));
    add("equiv-1p3z", lin(mk(1, 3, vec![(0, 0), (0, 1), (0, 2)])), Box::new(|c| c05::equiv::<S>(c, 4, false)));
    add("equiv-2p3z", lin(mk(2, 3, vec![(0, 0), (1, 0), (0, 1), (1, 2)])), Box::new(|c| c05::equiv::<S>(c, 4, false)));
    if S::HIDING && name != "hyrax" {
        // a batch whose first point label queries only a non-hiding polynomial and whose second one queries a hiding one
        let mut c = Cfg::new(std_size::<S>(t, 1), vec![PolySpec::new(2).conc(), PolySpec::new(2).conc().hide(1)]);
        c.seed = seed;
        c.npoints = 2;
        c.queries = vec![(0, 0), (1, 1)];
        c.rng_nonzero = true;
        add("equiv-plain-then-hiding-2p2z", lin(c.clone()), Box::new(|c| c05::equiv::<S>(c, 3, false)));
        c.queries = vec![(1, 0), (0, 1)];
        add("equiv-hiding-then-plain-2p2z", lin(c), Box::new(|c| c05::equiv::<S>(c, 3, false)));
    }
    if matches!(name, "marlin" | "sonic" | "pst13") {
        add("equiv-forged-w-2p2z", lin(mk(2, 2, vec![(0, 0), (1, 0), (0, 1), (1, 1)])), Box::new(|c| c05::equiv_mode::<S>(c, 3, false, true)));
        add("equiv-forged-w-1p3z", lin(mk(1, 3, vec![(0, 0), (0, 1), (0, 2)])), Box::new(|c| c05::equiv_mode::<S>(c, 4, false, true)));
    }
    if !quick {
        add("equiv-3p3z", lin(mk(3, 3, vec![(0, 0), (1, 0), (1, 1), (2, 1), (2, 2), (0, 2)])), Box::new(|c| c05::equiv::<S>(c, 4, false)));
    }
    for (id, m) in [("plist-truncate", ListMut::Truncate), ("plist-empty", ListMut::Empty), ("plist-swap", ListMut::Swap), ("plist-dup", ListMut::Dup), ("plist-surplus", ListMut::Surplus)] {
        let mut c = mk(2, 2, vec![(0, 0), (1, 1)]);
        // proofs moved between positions: acceptance for trapdoor-dependent special points is not an
        // attack; the points are concrete-random (distinct) there and only the challenges are symbolic
        c.sym_points = !matches!(m, ListMut::Swap | ListMut::Dup);
        add(id, c, Box::new(move |c| c05::proof_list::<S>(c, m)));
    }
}

fn c06_family<S: Sch>(t: Tier, seed: u64, out: &mut Vec<Entry>) {
    let name = S::NAME;
    let quick = t == Tier::Quick;
    let f = vec!["PolynomialCommitment::{open_combinations,check_combinations}", "lc_query_set_to_poly_query_set", "evaluate_query_set", "Marlin::{open_combinations,check_combinations,combine_commitments}", "batch_open", "batch_check"];
    let sym = "LC coefficients and constants, points (aliasing solver-generated), challenges, delta; polynomial coefficients in 1-polynomial shapes";
    let mk = |polys: Vec<PolySpec>, npoints: usize| -> Cfg {
        let mut c = Cfg::new(std_size::<S>(t, 0), polys);
        c.seed = seed;
        c.npoints = npoints;
        c.queries = vec![];
        c
    };
    let conc = |n: usize| -> Vec<PolySpec> { (0..n).map(|_| PolySpec::new(2).conc()).collect() };
    let mut add = |id: &str, cfg: Cfg, shape: LcShape, pert: Pert, twin: bool| {
        let b = format!("{:?}; polys {:?}; points {}; {:?}; perturbation {:?}", cfg.sz, cfg.polys, cfg.npoints, shape, pert);
        let (c2, s2) = (cfg.clone(), shape.clone());
        let mut en = e(format!("{}/{}", name, id), t, sym, b, move || c06::run::<S>(&c2, &s2, pert, twin));
        en.funcs = f.clone();
        en.twin = twin;
        if quick { en.lim.wall_s = 45.0; }
        out.push(en);
    };
    let s_abk = LcShape { lcs: vec![vec![T::P(0), T::P(1), T::One]], queries: vec![(0, 0)] };
    let s_rep = LcShape { lcs: vec![vec![T::P(0), T::P(0)]], queries: vec![(0, 0)] };
    let s_two = LcShape { lcs: vec![vec![T::P(0), T::P(1)], vec![T::P1(1), T::One]], queries: vec![(0, 0), (1, 0)] };
    let s_alias = LcShape { lcs: vec![vec![T::P(0), T::P(1), T::One]], queries: vec![(0, 0), (0, 1)] };
    let s_one = LcShape { lcs: vec![vec![T::P(0), T::One]], queries: vec![(0, 0)] };
    // honest
    add("honest-a.p0+b.p1+k", mk(conc(2), 1), s_abk.clone(), Pert::None, false);
    add("honest-repeated-label", mk(conc(1), 1), s_rep.clone(), Pert::None, false);
    add("honest-2lcs-1point", mk(conc(2), 1), s_two.clone(), Pert::None, false);
    add("honest-2z-alias", mk(conc(2), 2), s_alias.clone(), Pert::None, false);
    add("honest-1p-sympoly", mk(vec![PolySpec::new(2)], 1), s_one.clone(), Pert::None, false);
    // several constant terms in one combination; a combination over a hiding and a non-hiding polynomial
    let s_kk = LcShape { lcs: vec![vec![T::One, T::P(0), T::One]], queries: vec![(0, 0)] };
    add("honest-two-constants", mk(conc(1), 1), s_kk.clone(), Pert::None, false);
    if S::HIDING && name != "hyrax" {
        let mut c = mk(vec![PolySpec::new(2).conc().hide(1), PolySpec::new(2).conc()], 1);
        c.sz = std_size::<S>(t, 1);
        c.rng_nonzero = true;
        add("honest-mixed-hiding", c.clone(), LcShape { lcs: vec![vec![T::P(0), T::P(1)]], queries: vec![(0, 0)] }, Pert::None, false);
        add("honest-mixed-hiding-rev", c, LcShape { lcs: vec![vec![T::P(1), T::P(0), T::One]], queries: vec![(0, 0)] }, Pert::None, false);
    }
    if name != "ipa" {
        // perturbations (IPA's challenges are hashes of the perturbed data: decided through C10 instead)
        add("val+d", mk(conc(2), 1), s_abk.clone(), Pert::Value(0), false);
        add("val+d-2z@1", mk(conc(2), 2), s_alias.clone(), Pert::Value(1), false);
        add("val+d-2z@0", mk(conc(2), 2), s_alias.clone(), Pert::Value(0), false);
        add("coeff+d", mk(conc(2), 1), s_abk.clone(), Pert::Coeff, false);
        add("const+d", mk(conc(2), 1), s_abk.clone(), Pert::Const, false);
        add("const+d-2z", mk(conc(2), 2), s_alias.clone(), Pert::Const, false);
        add("val+d-two-constants", mk(conc(1), 1), s_kk.clone(), Pert::Value(0), false);
        if matches!(name, "hyrax" | "ligero-uni" | "ligero-ml" | "brakedown" | "brakedown-rec") {
            add("eval-shift", mk(conc(2), 1), LcShape { lcs: vec![vec![T::P(0), T::P(1)]], queries: vec![(0, 0)] }, Pert::EvalShift, false);
        }
        add("twin-val+d", mk(conc(2), 1), s_abk.clone(), Pert::Value(0), true);
    }
    if S::BOUNDS {
        let sup = std_size::<S>(t, 0).supported;
        let mixed = vec![PolySpec::new(2).conc().bound(sup - 1), PolySpec::new(2).conc()];
        add("degbound-mix-refused", mk(mixed.clone(), 1), LcShape { lcs: vec![vec![T::P(1), T::P(0)]], queries: vec![(0, 0)] }, Pert::ExpectDegBoundErr, false);
        add("degbound-mix-refused-with-const", mk(mixed.clone(), 1), LcShape { lcs: vec![vec![T::P1(0), T::One, T::P(1)]], queries: vec![(0, 0)] }, Pert::ExpectDegBoundErr, false);
        add("honest-single-bounded-term", mk(mixed.clone(), 1), LcShape { lcs: vec![vec![T::P1(0)]], queries: vec![(0, 0)] }, Pert::None, false);
    }
}

pub fn catalogue(prop: &str, t: Tier, seed: u64) -> Vec<Entry> {
    let mut out = vec![];
    let deep = matches!(prop, "C02" | "C03" | "C04" | "C05" | "C06" | "C10" | "C11");
    catalogue_inner(prop, t, seed, &mut out);
    if deep {
        for en in out.iter_mut() {
            // completeness-style configurations keep the breadth-first order
            let honest = en.id.contains("/honest") || en.id.contains("/hist-") || en.id.contains("equiv-honest") || en.id.contains("admit-");
            en.lim.deep_first = !honest;
        }
    }
    out
}

fn catalogue_inner(prop: &str, t: Tier, seed: u64, out: &mut Vec<Entry>) {
    let mut out = out;
    match prop {
        "C01" => {
            c01_family::<Marlin>(t, seed, out);
            c01_family::<Sonic>(t, seed, out);
            c01_family::<Ipa>(t, seed, out);
            c01_family::<Pst13>(t, seed, out);
            c01_family::<Hyrax>(t, seed, out);
            c01_family::<LigeroUni>(t, seed, out);
            c01_family::<LigeroMl>(t, seed, out);
            c01_family::<Brakedown>(t, seed, out);
            c01_family::<BrakedownRec>(t, seed, out);
            let fi = vec!["kzg10::KZG10::{setup,commit,open,check,batch_check}", "MultilinearPC::{setup,trim,commit,open,check}"];
            for (id, len, hid, batch) in [("kzg10/1p", 3usize, None, false), ("kzg10/1p-hide1", 2, Some(1usize), false), ("kzg10/2p-batch", 2, None, true)] {
                let mut en = e(id.to_string(), t, "coefficients, points, blinding", format!("max_degree 3, {} coefficients, hiding {:?}", len, hid), move || inherent::kzg10(3, len, hid, IPert::None, batch, seed)); en.funcs = fi.clone(); if t == Tier::Quick { en.lim.wall_s = 45.0; } out.push(en);
            }
            for nv in if t == Tier::Quick { vec![1usize, 2] } else { vec![1usize, 2, 3] } {
                let mut en = e(format!("mlpst/nv{}", nv), t, "evaluations, point", format!("{} variables", nv), move || inherent::mlpst(nv, IPert::None, seed)); en.funcs = fi.clone(); out.push(en);
            }
            // streaming KZG (the drivers are C14's: honest single / multi-point / multi-polynomial openings verify)
            let fs = vec!["streaming_kzg::{CommitterKey,CommitterKeyStream}::{commit,open,open_multi_points,batch_open_multi_points}", "streaming_kzg::VerifierKey::{verify,verify_multi_points}"];
            let mut en = e("streaming/single-n3".into(), t, "coefficients, point", "3 coefficients".into(), move || c14::single(3, 2, seed)); en.funcs = fs.clone(); if t == Tier::Quick { en.lim.wall_s = 45.0; } out.push(en);
            for (n, m, k) in [(2usize, 2usize, 2usize), (3, 2, 3)] {
                let mut en = e(format!("streaming/multi-n{}-pts{}-polys{}", n, m, k), t, "coefficients, points, batching challenge", format!("{} polynomials of mixed lengths from {} coefficients, {} points", k, n, m), move || c14::multi(n, m, k, 2, seed)); en.funcs = fs.clone(); if t == Tier::Quick { en.lim.wall_s = 45.0; } out.push(en);
            }
        }
        "C02" => {
            c02_family::<Marlin>(t, seed, out);
            c02_family::<Sonic>(t, seed, out);
            c02_family::<Pst13>(t, seed, out);
            // IPA: with a changed value its challenges are other oracle outputs, so acceptance on the clean tree needs
            // solver-chosen oracle outputs and is filtered by the natural-oracle replay; a verifier that loses the
            // verdict accepts deterministically
            c02_family::<Ipa>(t, seed, out);
            c02_family::<Hyrax>(t, seed, out);
            c02_family::<LigeroUni>(t, seed, out);
            c02_family::<LigeroMl>(t, seed, out);
            c02_family::<Brakedown>(t, seed, out);
            c02_family::<BrakedownRec>(t, seed, out);
            let fi = vec!["kzg10::KZG10::{setup,commit,open,check,batch_check}", "MultilinearPC::{setup,trim,commit,open,check}"];
            for (id, len, hid, batch, pert) in [("kzg10/1p-val", 3usize, None, false, IPert::Value), ("kzg10/1p-point", 3, None, false, IPert::Point), ("kzg10/1p-hide1-val", 2, Some(1usize), false, IPert::Value), ("kzg10/2p-batch-val", 2, None, true, IPert::Value), ("kzg10/twin", 2, None, false, IPert::Twin)] {
                let mut en = e(id.to_string(), t, "coefficients, points, blinding, delta", format!("max_degree 3, {} coefficients, hiding {:?}", len, hid), move || inherent::kzg10(3, len, hid, pert, batch, seed)); en.funcs = fi.clone(); en.twin = pert == IPert::Twin; if t == Tier::Quick { en.lim.wall_s = 45.0; } out.push(en);
            }
            for (id, nv, pert) in [("mlpst/nv2-val", 2usize, IPert::Value), ("mlpst/nv2-point", 2, IPert::Point), ("mlpst/nv1-val", 1, IPert::Value), ("mlpst/twin", 2, IPert::Twin)] {
                let mut en = e(id.to_string(), t, "evaluations, point, delta", format!("{} variables", nv), move || inherent::mlpst(nv, pert, seed)); en.funcs = fi.clone(); en.twin = pert == IPert::Twin; out.push(en);
            }
        }
        "C15" => {
            let f = vec!["MarlinPST13::{setup,trim,commit,open,check,divide_at_point}", "combinations::Combinations", "marlin_pst13_pc::Randomness::rand"];
            let quick = t == Tier::Quick;
            let g = if quick { 3 } else { 5 };
            for nv in 1..=g {
                for d in 1..=g {
                    if !quick && nv + d > 8 { continue; }
                    let mut en = e(format!("keyset/nv{}-d{}", nv, d), t, "nothing (input-free: executed and asserted on one concrete path, not solver-decided)", format!("{} variables, max degree {}", nv, d), move || c15::keyset(nv, d, seed));
                    en.funcs = f.clone();
                    out.push(en);
                }
            }
            let mut en = e("combinations/multisets".into(), t, "nothing (concrete enumeration)", "7 value lists, every selection length".into(), c15::combinations);
            en.funcs = f.clone();
            out.push(en);
            // any polynomial within the supported degree - mixed monomials included - commits, opens and verifies,
            // and no other value is accepted: dense symbolic polynomials over all monomials
            let shapes: Vec<(usize, usize, usize, Option<usize>)> = if quick { vec![(1, 2, 3, None), (2, 2, 3, None), (2, 2, 2, Some(1)), (3, 2, 2, None)] } else { vec![(1, 2, 3, None), (1, 3, 4, None), (2, 2, 3, None), (2, 2, 3, Some(1)), (2, 3, 3, None), (3, 2, 3, None), (3, 2, 2, Some(1))] };
            for (nv, d, len, hid) in shapes {
                let mut ps = PolySpec::new(len);
                if let Some(h) = hid { ps = ps.hide(h); }
                let mut c = Cfg::new(Size::mv(nv, d, hid.unwrap_or(0)), vec![ps]);
                c.seed = seed;
                c.rng_nonzero = true;
                let b = format!("{} variables, parameters of degree {}, dense polynomial of degree {} over all its monomials, hiding {:?}", nv, d, len - 1, hid);
                let c2 = c.clone();
                let mut en = e(format!("open/nv{}-d{}-deg{}{}", nv, d, len - 1, if hid.is_some() { "-hiding" } else { "" }), t, "coefficients of every monomial, point, challenge, blinding", b.clone(), move || c01::honest::<Pst13>(&c2, Mode::Single));
                en.funcs = f.clone();
                if quick { en.lim.wall_s = 45.0; }
                out.push(en);
                let c2 = c.clone();
                let mut en = e(format!("binding/nv{}-d{}-deg{}{}", nv, d, len - 1, if hid.is_some() { "-hiding" } else { "" }), t, "coefficients of every monomial, point, challenge, blinding, delta", b, move || c02::perturbed::<Pst13>(&c2, Mode::Single, Kind::Value(0), false));
                en.funcs = f.clone();
                en.lim.deep_first = true;
                if quick { en.lim.wall_s = 45.0; }
                out.push(en);
            }
            // "with and without hiding" inside one commit call: hiding and plain polynomials in both orders, each
            // opened on its own afterwards (the commit loop's per-polynomial state must not leak between them)
            for (tag, order) in [("hiding-then-plain", vec![true, false]), ("plain-then-hiding", vec![false, true]), ("hiding-plain-hiding", vec![true, false, true])] {
                if quick && order.len() == 3 { continue; }
                let polys: Vec<PolySpec> = order.iter().map(|h| if *h { PolySpec::new(2).conc().hide(1) } else { PolySpec::new(2).conc() }).collect();
                let n = polys.len();
                let mut c = Cfg::new(Size::mv(2, 2, 1), polys).points(n, (0..n).map(|i| (i, i)).collect());
                c.seed = seed;
                c.rng_nonzero = true;
                let mut en = e(format!("open/one-commit-{}", tag), t, "points, challenges, blinding", format!("2 variables, degree 2, {:?} committed in one call, each opened at its own point", order), move || c01::honest::<Pst13>(&c, Mode::Single));
                en.funcs = f.clone();
                if quick { en.lim.wall_s = 45.0; }
                out.push(en);
            }
        }
        "C16" => {
            let f = vec!["LinearCombination::{add_assign,sub_assign,mul_assign}", "evaluate_query_set", "SuccinctCheckPolynomial::{evaluate,compute_coeffs}"];
            let maxlen = if t == Tier::Quick { 2 } else { 3 };
            for len in 1..=maxlen {
                let mut en = e(format!("lc-ops/len{}", len), t, "all operand coefficients, constants and polynomial evaluations", format!("all 7^{} operator sequences", len), move || c16::lc_ops(len, false));
                en.funcs = f.clone();
                out.push(en);
            }
            {
                let mut en = e("lc-ops/term-helpers".into(), t, "nothing (input-free)", "LCTerm conversions and comparisons, LinearCombination::{empty,new,push,is_empty}, LabeledPolynomial accessors".into(), c16::lc_term_helpers);
                en.funcs = vec!["LCTerm::{from,try_into,eq,is_one}", "LinearCombination::{empty,new,push,is_empty,label}", "LabeledPolynomial::{new,label,polynomial,polynomial_mut,degree_bound,hiding_bound,is_hiding,deref}"];
                out.push(en);
            }
            let mut en = e("lc-ops/twin".into(), t, "as lc-ops", "planted off-by-one in the last sequence".into(), || c16::lc_ops(1, true));
            en.twin = true;
            en.funcs = f.clone();
            out.push(en);
            let mut en = e("eval-qs/2p2z-shared".into(), t, "coefficients of both polynomials, both points", "2 polynomials of 3 coefficients, 4 queries over 3 point labels and 2 points".into(), c16::eval_qs);
            en.funcs = f.clone();
            out.push(en);
            for k in if t == Tier::Quick { vec![7usize, 8, 10] } else { vec![7usize, 8, 9, 10, 11, 12] } {
                let mut en = e(format!("succinct/wide-k{}", k), t, "all challenges and the point", format!("k = {} challenges, 2^{} coefficients, against the defining product", k, k), move || c16::succinct_wide(k));
                en.funcs = f.clone();
                out.push(en);
            }
            let kmax = if t == Tier::Quick { 6 } else { 9 };
            for k in 0..=kmax {
                let mut en = e(format!("succinct/k{}", k), t, "all challenges and the point", format!("k = {} challenges, 2^{} coefficients", k, k), move || c16::succinct(k));
                en.funcs = f.clone();
                out.push(en);
            }
        }
        "C03" => {
            let f = vec!["PolynomialCommitment::{commit,open,check}", "LinearCodePCS::check", "Path::verify", "get_indices_from_sponge", "calculate_t", "MarlinPST13::check", "HyraxPC::check", "kzg10::KZG10::check"];
            let quick = t == Tier::Quick;
            let symtxt = "polynomial(s), point(s), challenges, delta, every replaced proof component";
            macro_rules! fam {
                ($S:ty, $pts:expr) => {{
                    let name = <$S as Sch>::NAME;
                    let len = if <$S as Sch>::UNIVARIATE { 3 } else { 3 };
                    let mut c = Cfg::new(std_size::<$S>(t, 0), vec![PolySpec::new(len)]);
                    c.seed = seed;
                    let c2 = c.clone();
                    let mut en = e(format!("{}/foreign-q", name), t, symtxt, format!("{:?}", c.sz), move || c03::foreign_q::<$S>(&c2)); en.funcs = f.clone(); if quick { en.lim.wall_s = 45.0; } out.push(en);
                    if $pts {
                        let c2 = c.clone();
                        let mut en = e(format!("{}/foreign-z", name), t, symtxt, format!("{:?}", c.sz), move || c03::foreign_z::<$S>(&c2)); en.funcs = f.clone(); if quick { en.lim.wall_s = 45.0; } out.push(en);
                    }
                }};
            }
            fam!(Marlin, true);
            fam!(Sonic, true);
            fam!(Pst13, true);
            fam!(LigeroUni, true);
            fam!(LigeroMl, true);
            fam!(Brakedown, true);
            fam!(BrakedownRec, true);
            macro_rules! lin {
                ($S:ty, $len:expr) => {{
                    let name = <$S as Sch>::NAME;
                    for (id, m) in [("cols+v-symbolic", LcMut::ColsSymbolic), ("cols-symbolic", LcMut::ColsOnlySymbolic), ("v-stretch", LcMut::VStretch), ("wf-absent", LcMut::WfAbsent), ("wf+v-symbolic", LcMut::WfSymbolic), ("cols-dup", LcMut::ColsDup), ("path-otherleaf", LcMut::PathOtherLeaf), ("leaf-rotate", LcMut::LeafRotate), ("cols-drop-last", LcMut::ColsDropLast), ("cols-none", LcMut::ColsNone)] {
                        let mut c = Cfg::new(std_size::<$S>(t, 0), vec![PolySpec::new($len).conc()]);
                        c.seed = seed;
                        c.sym_points = false;
                        // transcript challenges take their natural (hash-of-concrete-transcript) values: the
                        // verifier's equations are then linear in the forged components
                        c.sym_ch = false;
                        let c2 = c.clone();
                        let mut en = e(format!("{}/{}", name, id), t, symtxt, format!("{:?}; concrete-random polynomial and point, symbolic replaced components", c.sz), move || c03::lincode::<$S>(&c2, m, false)); en.funcs = f.clone(); if quick { en.lim.wall_s = 60.0; } out.push(en);
                    }
                    let mut c = Cfg::new(std_size::<$S>(t, 0), vec![PolySpec::new($len).conc()]);
                    c.seed = seed;
                    c.sym_points = false;
                    let c2 = c.clone();
                    let mut en = e(format!("{}/twin", name), t, symtxt, "twin".into(), move || c03::lincode::<$S>(&c2, LcMut::WfAbsent, true)); en.funcs = f.clone(); en.twin = true; out.push(en);
                }};
            }
            lin!(LigeroUni, 4);
            lin!(LigeroMl, 1);
            lin!(Brakedown, 1);
            lin!(BrakedownRec, 1);
            macro_rules! batchf {
                ($S:ty) => {{
                    let mut c = Cfg::new(std_size::<$S>(t, 0), vec![PolySpec::new(2).conc()]);
                    c.seed = seed;
                    c.npoints = 3;
                    c.queries = vec![(0, 0), (0, 1), (0, 2)];
                    c.sym_points = false;
                    c.sym_ch = false;
                    c.rng_nonzero = true;
                    let c2 = c.clone();
                    let mut en = e(format!("{}/batch-forged-1p3z", <$S as Sch>::NAME), t, "one error term per claimed value, the witness elements of proofs 2 and 3", format!("{:?}; one polynomial at 3 concrete points, 4 verifier tapes", c.sz), move || c03::batch_forged::<$S>(&c2, 4)); en.funcs = f.clone(); if quick { en.lim.wall_s = 45.0; } out.push(en);
                }};
            }
            batchf!(Marlin);
            batchf!(Sonic);
            batchf!(Pst13);
            for (tag, ps, hid) in [("plain", PolySpec::new(2), 0usize), ("hiding", PolySpec::new(2).conc().hide(1), 1)] {
                let mut c = Cfg::new(Size::uni(3, 3, hid), vec![ps]);
                c.seed = seed;
                c.rng_nonzero = true;
                let c2 = c.clone();
                let mut en = e(format!("ipa/extra-round-padded-key-{}", tag), t, symtxt, format!("{:?}; committer key extended by 4 identity elements, p' = p + X^4 (q0 + q1 X)", c.sz), move || c03::ipa_extra_rounds(&c2)); en.funcs = f.clone(); if quick { en.lim.wall_s = 45.0; } out.push(en);
            }
            for (id, drop) in [("pst13/w-short", true), ("pst13/w-long", false)] {
                let mut c = Cfg::new(Size::mv(2, 2, 0), vec![PolySpec::new(3)]);
                c.seed = seed;
                let c2 = c.clone();
                let mut en = e(id.to_string(), t, symtxt, format!("{:?}", c.sz), move || c03::pst13_wlist(&c2, drop)); en.funcs = f.clone(); if quick { en.lim.wall_s = 45.0; } out.push(en);
            }
            {
                let mut c = Cfg::new(Size::mv(2, 1, 0), vec![PolySpec::new(1), PolySpec::new(1)]);
                c.seed = seed;
                let c2 = c.clone();
                let mut en = e("hyrax/plist-short".into(), t, symtxt, format!("{:?}", c.sz), move || c03::hyrax_plist_short(&c2)); en.funcs = f.clone(); out.push(en);
                let c2 = c.clone();
                let mut en = e("hyrax/plist-empty".into(), t, symtxt, format!("{:?}", c.sz), move || c03::plist_short::<Hyrax, _>(&c2, true)); en.funcs = f.clone(); out.push(en);
            }
            macro_rules! plist {
                ($S:ty, $sz:expr) => {{
                    for empty in [false, true] {
                        let mut c = Cfg::new($sz, vec![PolySpec::new(1).conc(), PolySpec::new(1).conc()]);
                        c.seed = seed;
                        let c2 = c.clone();
                        let mut en = e(format!("{}/plist-{}", <$S as Sch>::NAME, if empty { "empty" } else { "short" }), t, "claimed-value error, point, challenges", format!("{:?}; two concrete polynomials, proof list with {} entries", c.sz, if empty { 0 } else { 1 }), move || c03::plist_short::<$S, _>(&c2, empty));
                        en.funcs = f.clone();
                        if quick { en.lim.wall_s = 45.0; }
                        out.push(en);
                    }
                }};
            }
            plist!(LigeroUni, Size::uni(4, 3, 0));
            plist!(LigeroMl, Size::mv(2, 1, 0));
            plist!(Brakedown, Size::mv(2, 1, 0));
            plist!(BrakedownRec, Size::mv(3, 1, 0));
        }
        "C04" => {
            c04_family::<Marlin>(t, seed, out);
            c04_family::<Sonic>(t, seed, out);
            c04_family::<Ipa>(t, seed, out);
            // keys of different requests from one universal string (Sonic: a bounded commitment is one group element)
            for (d, enforced_a) in [(3usize, vec![1usize]), (2, vec![1, 3]), (3, vec![])] {
                let quick = t == Tier::Quick;
                let (maxd, sup) = if quick { (4usize, 3usize) } else { (6, 5) };
                let d = if quick { d } else { d + 2 };
                let enforced_a: Vec<usize> = enforced_a.iter().map(|b| if quick || *b == 1 { *b } else { *b + 2 }).collect();
                let mut c = Cfg::new(Size::uni(maxd, sup, 0), vec![PolySpec::new(2)]);
                c.seed = seed;
                c.enforced = if enforced_a.is_empty() { None } else { Some(enforced_a.clone()) };
                let mut en = e(format!("sonic/foreign-key-bound-d{}-vk{:?}", d, enforced_a).replace(' ', ""), t, "coefficients, point, challenges", format!("max_degree {}, supported {}; verifier key trimmed for bounds {:?}, commitment made under bound {} by another key of the same parameters", maxd, sup, enforced_a, d), move || c04::sonic_foreign_bound(&c, d));
                en.funcs = vec!["SonicKZG10::{trim,commit,open,check,check_elems}", "sonic_pc::VerifierKey::get_shift_power"];
                en.lim.deep_first = true;
                if quick { en.lim.wall_s = 45.0; }
                out.push(en);
            }
        }
        "C05" => {
            c05_family::<Marlin>(t, seed, out);
            c05_family::<Sonic>(t, seed, out);
            c05_family::<Ipa>(t, seed, out);
            c05_family::<Pst13>(t, seed, out);
            c05_family::<LigeroUni>(t, seed, out);
            c05_family::<LigeroMl>(t, seed, out);
            c05_family::<Brakedown>(t, seed, out);
            c05_family::<BrakedownRec>(t, seed, out);
            c05_family::<Hyrax>(t, seed, out);
        }
        "C06" => {
            c06_family::<Marlin>(t, seed, out);
            c06_family::<Sonic>(t, seed, out);
            c06_family::<Ipa>(t, seed, out);
            c06_family::<Pst13>(t, seed, out);
            c06_family::<Hyrax>(t, seed, out);
            c06_family::<LigeroUni>(t, seed, out);
            c06_family::<LigeroMl>(t, seed, out);
            c06_family::<Brakedown>(t, seed, out);
        }
        "C07" => {
            let f = vec!["kzg10::KZG10::{commit,open_with_witness_polynomial}", "kzg10::Randomness::rand", "MarlinKZG10/SonicKZG10/InnerProductArgPC/MarlinPST13/HyraxPC::{commit,open}", "OptionalRng"];
            let quick = t == Tier::Quick;
            // environment assumption: RNG draws are non-zero (a zero draw shortens the stored blinding polynomial)
            let mk = |sz: Size, polys: Vec<PolySpec>| { let mut c = Cfg::new(sz, polys); c.seed = seed; c.sym_rng = true; c.rng_nonzero = true; c };
            let hs: Vec<usize> = if quick { vec![1, 2] } else { vec![1, 2, 3] };
            for h in &hs {
                let h = *h;
                let c = mk(Size::uni(5, 4, 3), vec![PolySpec::new(2).hide(h)]);
                let c2 = c.clone();
                let mut en = e(format!("marlin/h{}", h), t, "coefficients, point, challenges, all blinding coefficients", format!("hiding bound {}, 2 coefficients", h), move || c07::marlin(&c2)); en.funcs = f.clone(); out.push(en);
                let c2 = c.clone();
                let mut en = e(format!("sonic/h{}", h), t, "coefficients, point, challenges, all blinding coefficients", format!("hiding bound {}, 2 coefficients", h), move || c07::sonic(&c2)); en.funcs = f.clone(); out.push(en);
                // Sonic publishes only d + 2 shifted hiding powers for an enforced bound d (the blinding of the shifted
                // commitment must stay below max_degree + 2), so a hiding bound above the degree bound is outside its
                // domain (commit answers HidingBoundToolarge): the degree bound is max(2, h)
                // a key whose supported hiding bound exceeds its supported degree (hiding bound above the polynomial's degree)
                if h >= 2 {
                    let c = mk(Size::uni(5, 1, 3), vec![PolySpec::new(2).hide(h)]);
                    let c2 = c.clone();
                    let mut en = e(format!("marlin/h{}-supported1", h), t, "coefficients, point, challenges, all blinding coefficients", format!("hiding bound {}, supported degree 1, supported hiding bound 3", h), move || c07::marlin(&c2)); en.funcs = f.clone(); if quick { en.lim.wall_s = 60.0; } out.push(en);
                    let c2 = c.clone();
                    let mut en = e(format!("sonic/h{}-supported1", h), t, "coefficients, point, challenges, all blinding coefficients", format!("hiding bound {}, supported degree 1, supported hiding bound 3", h), move || c07::sonic(&c2)); en.funcs = f.clone(); if quick { en.lim.wall_s = 60.0; } out.push(en);
                }
                let d = h.max(2);
                let cb = mk(Size::uni(5, 4, 3), vec![PolySpec::new(2).hide(h).bound(d)]);
                let c2 = cb.clone();
                let mut en = e(format!("marlin/h{}-bound{}", h, d), t, "coefficients, point, challenges, all blinding coefficients", format!("hiding bound {}, degree bound {}", h, d), move || c07::marlin(&c2)); en.funcs = f.clone(); if quick { en.lim.wall_s = 60.0; } out.push(en);
                let c2 = cb.clone();
                let mut en = e(format!("sonic/h{}-bound{}", h, d), t, "coefficients, point, challenges, all blinding coefficients", format!("hiding bound {}, degree bound {}", h, d), move || c07::sonic(&c2)); en.funcs = f.clone(); if quick { en.lim.wall_s = 60.0; } out.push(en);
            }
            {
                let c = mk(Size::uni(3, 3, 1), vec![PolySpec::new(2).hide(1)]);
                let c2 = c.clone();
                let mut en = e("ipa/h1".into(), t, "coefficients, blinding scalars", "hiding, 2 coefficients".into(), move || c07::ipa(&c2)); en.funcs = f.clone(); out.push(en);
                let c = mk(Size::uni(3, 3, 1), vec![PolySpec::new(2).hide(1).bound(2)]);
                let c2 = c.clone();
                let mut en = e("ipa/h1-bound2".into(), t, "coefficients, blinding scalars", "hiding, degree bound 2".into(), move || c07::ipa(&c2)); en.funcs = f.clone(); out.push(en);
                for len in [1usize, 2] {
                    let c = mk(Size::uni(3, 3, 1), vec![PolySpec::new(len).hide(1)]);
                    let c2 = c.clone();
                    let mut en = e(format!("ipa/open-masking-{}coeff", len), t, "coefficients, point, every RNG draw of commit and open", format!("hiding polynomial with {} coefficient(s) under supported degree 3", len), move || c07::ipa_open_masking(&c2)); en.funcs = f.clone(); out.push(en);
                }
                let c = mk(Size::mv(2, 2, 1), vec![PolySpec::new(2).hide(1)]);
                let c2 = c.clone();
                let mut en = e("pst13/h1".into(), t, "coefficients, point, challenge, blinding polynomial", "2 variables, degree 2 parameters, hiding bound 1".into(), move || c07::pst13(&c2)); en.funcs = f.clone(); if quick { en.lim.wall_s = 60.0; } out.push(en);
                let c = mk(Size::mv(2, 1, 0), vec![PolySpec::new(1)]);
                let c2 = c.clone();
                let mut en = e("hyrax/rows-nv2".into(), t, "evaluations, row blinding scalars", "2 variables".into(), move || c07::hyrax(&c2)); en.funcs = f.clone(); out.push(en);
                let c = mk(Size::mv(2, 1, 0), vec![PolySpec::new(1).conc(), PolySpec::new(1).conc(), PolySpec::new(1).conc()]);
                let c2 = c.clone();
                let mut en = e("hyrax/open-masks-3p".into(), t, "point, challenge, every RNG draw of commit and open", "3 polynomials opened in one call, 2 variables".into(), move || c07::hyrax_open_masks(&c2)); en.funcs = f.clone(); out.push(en);
                macro_rules! mixed {
                    ($S:ty, $sz:expr) => {{
                        let c = mk($sz, vec![PolySpec::new(2).hide(1), PolySpec::new(2), PolySpec::new(2).conc().hide(1), PolySpec::new(2).conc()]);
                        let c2 = c.clone();
                        let mut en = e(format!("{}/mixed-batch", <$S as Sch>::NAME), t, "coefficients, every RNG draw of the commit call", "one commit call over [hiding, plain, hiding, plain]".into(), move || c07::mixed_batch::<$S>(&c2)); en.funcs = f.clone(); if quick { en.lim.wall_s = 60.0; } out.push(en);
                    }};
                }
                mixed!(Marlin, Size::uni(5, 4, 3));
                mixed!(Sonic, Size::uni(5, 4, 3));
                mixed!(Ipa, Size::uni(3, 3, 1));
                mixed!(Pst13, Size::mv(2, 2, 1));
                for h in [1usize, 2] {
                    let mut en = e(format!("kzg10/direct-h{}", h), t, "coefficients, blinding coefficients", format!("KZG10::commit, hiding bound {}", h), move || c07::kzg10_direct(h, seed)); en.funcs = f.clone(); out.push(en);
                }
            }
        }
        "C08" => {
            let f = vec!["PolynomialCommitment::{setup,trim,commit}", "kzg10::KZG10::commit", "skip_leading_zeros_and_convert_to_bigints", "CommitterKey::shifted_powers", "LinearEncode::compute_matrices", "create_merkle_tree"];
            let quick = t == Tier::Quick;
            let mk = |sz: Size, polys: Vec<PolySpec>| { let mut c = Cfg::new(sz, polys); c.seed = seed; c.sym_rng = true; c };
            let (maxd, sup) = if quick { (5, 3) } else { (7, 5) };
            macro_rules! uni {
                ($S:ty) => {{
                    let name = <$S as Sch>::NAME;
                    let plain = mk(Size::uni(maxd, sup, 0), vec![PolySpec::new(sup + 1)]);
                    let c2 = plain.clone();
                    let mut en = e(format!("{}/msm-plain", name), t, "all coefficients (so every leading/trailing-zero shape)", format!("{:?}, {} coefficients", plain.sz, sup + 1), move || c08::univariate_msm::<$S>(&c2));
                    en.funcs = f.clone();
                    out.push(en);
                    for d in [sup - 1, sup] {
                        let mut c = mk(Size::uni(maxd, sup, 0), vec![PolySpec::new(d + 1).bound(d), PolySpec::new(2).bound(sup)]);
                        c.enforced = Some(vec![sup, d, d]);
                        let c2 = c.clone();
                        let mut en = e(format!("{}/msm-shifted-d{}", name, d), t, "all coefficients", format!("{:?}, bounds {} and {}, enforced list unsorted with duplicate", c.sz, d, sup), move || c08::univariate_msm::<$S>(&c2));
                        en.funcs = f.clone();
                        out.push(en);
                    }
                    let add = mk(Size::uni(maxd, sup, 0), vec![PolySpec::new(3), PolySpec::new(3)]);
                    let c2 = add.clone();
                    let mut en = e(format!("{}/additive", name), t, "coefficients of p and q, scalars a and b", format!("{:?}, 3 coefficients each", add.sz), move || c08::additive::<$S>(&c2));
                    en.funcs = f.clone();
                    if quick { en.lim.wall_s = 60.0; }
                    out.push(en);
                    let mut addb = mk(Size::uni(maxd, sup, 0), vec![PolySpec::new(2).bound(sup - 1), PolySpec::new(2).bound(sup - 1)]);
                    addb.enforced = Some(vec![sup - 1]);
                    let c2 = addb.clone();
                    let mut en = e(format!("{}/additive-shifted", name), t, "coefficients of p and q, scalars a and b", format!("{:?}, 2 coefficients each, bound {}", addb.sz, sup - 1), move || c08::additive::<$S>(&c2));
                    en.funcs = f.clone();
                    out.push(en);
                }};
            }
            uni!(Marlin);
            uni!(Sonic);
            uni!(Ipa);
            for (n, k) in [(4usize, 1usize), (5, 2)] {
                let mut en = e(format!("streaming/commit-folding-n{}-k{}", n, k), t, "coefficients (zero coefficients included), folding challenges", format!("{} coefficients, {} folding levels (C14's driver: commit_folding = time commitment of every folded polynomial)", n, k), move || c14::fold(n, k, 4, seed));
                en.funcs = f.clone();
                if quick { en.lim.wall_s = 40.0; }
                out.push(en);
            }
            {
                let c = mk(Size::mv(2, 2, 0), vec![PolySpec::new(3)]);
                let c3 = c.clone();
                let mut en = e("pst13/msm-noncanonical-terms".into(), t, "coefficients of all 6 monomials of degree <= 2 in 2 variables, split coefficient", format!("{:?}; term lists reversed / rotated / one monomial in two entries", c.sz), move || c08::pst13_noncanonical(&c3));
                en.funcs = f.clone();
                out.push(en);
                let c2 = c.clone();
                let mut en = e("pst13/msm".into(), t, "coefficients of all 6 monomials of degree <= 2 in 2 variables", format!("{:?}", c.sz), move || c08::pst13_msm(&c2));
                en.funcs = f.clone();
                out.push(en);
                let c = mk(Size::mv(2, 2, 0), vec![PolySpec::new(3), PolySpec::new(3)]);
                let c2 = c.clone();
                let mut en = e("pst13/additive".into(), t, "coefficients of p and q, scalars a and b", format!("{:?}", c.sz), move || c08::additive::<Pst13>(&c2));
                en.funcs = f.clone();
                if quick { en.lim.wall_s = 60.0; }
                out.push(en);
            }
            {
                let mut en = e("operators/add-assign".into(), t, "accumulator, operand, scalars, all blinding coefficients", "kzg10::Commitment += (f,&D); kzg10/marlin Randomness += (f,&R), += &R; 3 coefficients".into(), move || c08::add_operators(seed));
                en.funcs = vec!["kzg10::Commitment::add_assign", "kzg10::Randomness::add_assign", "marlin_pc::Randomness::add_assign"];
                out.push(en);
                let mut en = e("operators/add-by-value".into(), t, "scalar, all blinding coefficients, evaluation point (PST13)", "kzg10/marlin/pst13 Randomness + &S, + (f,&S), += with a missing shifted part; 2-3 coefficients".into(), move || c08::add_operators_by_value(seed));
                en.funcs = vec!["kzg10::Randomness::add", "marlin_pc::Randomness::{add,add_assign}", "marlin_pst13_pc::Randomness::{add,add_assign}"];
                if quick { en.lim.wall_s = 60.0; }
                out.push(en);
            }
            for nv in if quick { vec![2usize] } else { vec![2usize, 4] } {
                let c = mk(Size::mv(nv, 1, 0), vec![PolySpec::new(1)]);
                let c2 = c.clone();
                let mut en = e(format!("hyrax/rows-nv{}", nv), t, "all evaluations, row blinding scalars", format!("{} variables", nv), move || c08::hyrax_rows(&c2));
                en.funcs = f.clone();
                out.push(en);
            }
            for n in if quick { vec![2usize, 4] } else { vec![2usize, 4, 6, 9] } {
                let c = mk(Size::uni(8, 8, 0), vec![PolySpec::new(n)]);
                let c2 = c.clone();
                let mut en = e(format!("ligero-uni/root-n{}", n), t, "all coefficients", format!("{} coefficients, rho_inv 4", n), move || c08::lincode_root::<LigeroUni>(&c2, true));
                en.funcs = f.clone();
                if quick { en.lim.wall_s = 60.0; }
                out.push(en);
            }
            {
                let c = mk(Size::mv(2, 1, 0), vec![PolySpec::new(1)]);
                let c2 = c.clone();
                let mut en = e("ligero-ml/root-nv2".into(), t, "all evaluations", "2 variables, rho_inv 2".into(), move || c08::lincode_root::<LigeroMl>(&c2, true));
                en.funcs = f.clone();
                out.push(en);
                let c2 = c.clone();
                let mut en = e("brakedown/root-nv2".into(), t, "all evaluations", "2 variables, default parameters (message below the base length: Reed-Solomon at 1, 2, ...)".into(), move || c08::lincode_root_code::<Brakedown>(&c2, 2));
                en.funcs = f.clone();
                out.push(en);
                {
                    let c = mk(Size::mv(4, 1, 0), vec![PolySpec::new(1)]);
                    let mut en = e("brakedown-rec/root-nv4".into(), t, "all evaluations", "4 variables, hand-made parameters with base length 3: one recursion level (A 8x2, Reed-Solomon 2->4, B 4x1), codeword length 13".into(), move || c08::lincode_root_code::<BrakedownRec>(&c, 2));
                    en.funcs = f.clone();
                    out.push(en);
                }
                for nv in if quick { vec![] } else { vec![5usize] } {
                    let c = mk(Size::mv(nv, 1, 0), vec![PolySpec::new(1)]);
                    let mut en = e(format!("brakedown/root-nv{}", nv), t, "all evaluations", format!("{} variables, default parameters: the recursive (sparse-matrix) regime", nv), move || c08::lincode_root_code::<Brakedown>(&c, 2));
                    en.funcs = f.clone();
                    out.push(en);
                }
            }
        }
        "C09" => {
            let f = vec!["kzg10::KZG10::setup", "streaming_kzg::CommitterKey::new", "MarlinKZG10::trim", "SonicKZG10::trim", "InnerProductArgPC::{setup,trim,sample_generators}", "HyraxPC::setup", "PreparedVerifierKey::prepare", "PreparedCommitment::prepare"];
            let quick = t == Tier::Quick;
            for d in if quick { vec![1usize, 2, 4] } else { vec![1usize, 2, 3, 4, 6, 8] } {
                let mut en = e(format!("kzg10/srs-d{}", d), t, "trapdoor beta and the generators g, gamma*g, h (symbolic RNG)", format!("max_degree {}, with G2 powers", d), move || c09::kzg_srs(d, seed)); en.funcs = f.clone(); out.push(en);
                let mut en = e(format!("streaming/srs-d{}", d), t, "trapdoor tau and the generators (symbolic RNG)", format!("max_degree {}, 2 evaluation points", d), move || c09::streaming_srs(d, 2, seed)); en.funcs = f.clone(); out.push(en);
            }
            // trim request grid around every boundary; the SRS is symbolic so a wrong index is a wrong term
            let maxd = if quick { 4 } else { 6 };
            let mut reqs: Vec<TrimReq> = vec![];
            for sup in [1, 2, maxd - 1, maxd, maxd + 1] {
                for hid in [0usize, 1, maxd, maxd + 1] {
                    if hid > 1 && sup != maxd { continue; }
                    let blists: Vec<Option<Vec<usize>>> = vec![None, Some(vec![]), Some(vec![1]), Some(vec![sup.min(maxd)]), Some(vec![sup.min(maxd), 1, 1, 2.min(sup)]), Some(vec![maxd + 1]), Some(vec![maxd]), Some(vec![(sup + 1).min(maxd + 1), 1]), Some(vec![maxd + 1, 1]), Some(vec![1, maxd + 1, 1])];
                    for b in blists {
                        if (hid > 1 || sup > maxd) && b != None { continue; }
                        reqs.push(TrimReq { max_degree: maxd, supported: sup, hiding: hid, bounds: b });
                    }
                }
            }
            for (i, r) in reqs.into_iter().enumerate() {
                let (r1, r2) = (r.clone(), r.clone());
                let mut en = e(format!("marlin/trim-{}", i), t, "the whole SRS (symbolic trapdoor and generators)", format!("{:?}", r), move || c09::marlin_trim(&r1, seed)); en.funcs = f.clone(); out.push(en);
                let mut en = e(format!("sonic/trim-{}", i), t, "the whole SRS (symbolic trapdoor and generators)", format!("{:?}", r), move || c09::sonic_trim(&r2, seed)); en.funcs = f.clone(); out.push(en);
            }
            for (nv, d) in if quick { vec![(2usize, 2usize), (3, 2)] } else { vec![(2usize, 2usize), (3, 2), (2, 3), (3, 3)] } {
                let mut en = e(format!("pst13/keyset-nv{}-d{}", nv, d), t, "nothing (input-free: executed and asserted on one concrete path, not solver-decided)", format!("{} variables, max degree {}: monomial set, pairing identities of every power, trim", nv, d), move || c15::keyset(nv, d, seed)); en.funcs = f.clone(); out.push(en);
            }
            let mut en = e("transparent/ipa-hyrax".into(), t, "nothing (input-free computations: executed and asserted, not solver-decided)", "IPA max_degree 1,3,6; Hyrax 2,4 variables".into(), move || c09::transparent(seed)); en.funcs = f.clone(); out.push(en);
            let mut en = e("prepared/doublings".into(), t, "the SRS (symbolic)", "first 12 and last 4 of 255 doublings".into(), move || c09::prepared(seed)); en.funcs = f.clone(); out.push(en);
        }
        "C10" => {
            let f = vec!["MarlinKZG10::check", "Marlin::accumulate_commitments_and_values", "kzg10::KZG10::check", "SonicKZG10::{check,accumulate_elems,check_elems}", "MarlinPST13::check", "InnerProductArgPC::{check,succinct_check}", "SuccinctCheckPolynomial::{evaluate,compute_coeffs}", "HyraxPC::check", "LinearCodePCS::check", "get_indices_from_sponge", "calculate_t", "kzg10::KZG10::batch_check", "MultilinearPC::check", "streaming_kzg::VerifierKey::{verify,verify_multi_points}"];
            let quick = t == Tier::Quick;
            let symtxt = "polynomial (1-polynomial shapes), point, challenges, blinding, and the replaced component (a fresh symbolic element of its type)";
            let mut add = |id: String, bounds: String, run: Box<dyn Fn() -> Verdict>| {
                let mut en = e(id, t, symtxt, bounds, move || run());
                en.funcs = f.clone();
                if quick { en.lim.wall_s = if en.id.starts_with("kzg10/") { 60.0 } else { 30.0 }; }
                out.push(en);
            };
            let mkc = |sz: Size, polys: Vec<PolySpec>| { let mut c = Cfg::new(sz, polys); c.seed = seed; c.rng_nonzero = true; c };
            // Marlin: plain, bounded, hiding+bounded
            for (tag, ps, hid) in [("plain", PolySpec::new(2), 0usize), ("bound", PolySpec::new(2).bound(2), 0), ("hide-bound", PolySpec::new(2).bound(2).hide(1), 1)] {
                if quick && tag != "hide-bound" { continue; }
                for which in 0..=11usize {
                    let c = mkc(Size::uni(4, 3, hid), vec![ps.clone()]);
                    add(format!("marlin/{}-c{}", tag, which), format!("{:?} {:?}", c.sz, c.polys), Box::new(move || c10::marlin(&c, which)));
                }
            }
            for (tag, ps, hid) in [("plain", PolySpec::new(2), 0usize), ("bound", PolySpec::new(2).bound(2), 0), ("hide", PolySpec::new(2).hide(1), 1)] {
                if quick && tag == "plain" { continue; }
                for which in 0..=10usize {
                    if quick && tag == "hide" && which != 5 && which != 0 { continue; }
                    let c = mkc(Size::uni(4, 3, hid), vec![ps.clone()]);
                    add(format!("sonic/{}-c{}", tag, which), format!("{:?} {:?}", c.sz, c.polys), Box::new(move || c10::sonic(&c, which)));
                }
            }
            for (tag, ps, hid) in [("plain", PolySpec::new(2), 0usize), ("hide", PolySpec::new(2).hide(1), 1)] {
                if quick && tag == "plain" { continue; }
                for which in 0..=11usize {
                    let c = mkc(Size::mv(2, 2, hid), vec![ps.clone()]);
                    add(format!("pst13/{}-c{}", tag, which), format!("{:?} {:?}", c.sz, c.polys), Box::new(move || c10::pst13(&c, which)));
                }
            }
            for (tag, ps, hid) in [("plain", PolySpec::new(2), 0usize), ("bound", PolySpec::new(2).bound(2), 0), ("hide", PolySpec::new(2).hide(1), 1)] {
                if quick && tag == "plain" { continue; }
                for which in 0..=15usize {
                    if quick && tag == "hide" && ![0usize, 9, 10].contains(&which) { continue; }
                    let c = mkc(Size::uni(3, 3, hid), vec![ps.clone()]);
                    add(format!("ipa/{}-c{}", tag, which), format!("{:?} {:?}", c.sz, c.polys), Box::new(move || c10::ipa(&c, which)));
                }
            }
            // several polynomials in one opening: a degree-bounded one in front of / behind a plain one (the challenge
            // schedule of the relation, not only its per-polynomial terms); the replaced component belongs to the first
            for (tag, first_bounded) in [("bound+plain", true), ("plain+bound", false)] {
                for which in [0usize, 1, 2, 3] {
                    let (a, b) = (PolySpec::new(2).conc().bound(2), PolySpec::new(2).conc());
                    let ps = if first_bounded { vec![a, b] } else { vec![b, a] };
                    let c = mkc(Size::uni(4, 3, 0), ps.clone());
                    add(format!("marlin/{}-c{}", tag, which), format!("{:?} {:?}", c.sz, c.polys), Box::new(move || c10::marlin(&c, which)));
                    let c = mkc(Size::uni(4, 3, 0), ps.clone());
                    add(format!("sonic/{}-c{}", tag, which), format!("{:?} {:?}", c.sz, c.polys), Box::new(move || c10::sonic(&c, which)));
                    let c = mkc(Size::uni(3, 3, 0), ps.clone());
                    add(format!("ipa/{}-c{}", tag, which), format!("{:?} {:?}", c.sz, c.polys), Box::new(move || c10::ipa(&c, which)));
                }
            }
            for which in 0..=11usize {
                let c = mkc(Size::mv(2, 1, 0), vec![PolySpec::new(1)]);
                add(format!("hyrax/c{}", which), format!("{:?}", c.sz), Box::new(move || c10::hyrax(&c, which)));
            }
            {
                // Sonic: label in a gap of the enforced set
                let mut c = mkc(Size::uni(4, 3, 0), vec![PolySpec::new(2).bound(3)]);
                c.enforced = Some(vec![1, 3]);
                add("sonic/bound-gap-c11".into(), format!("{:?} {:?} enforced {:?}", c.sz, c.polys, c.enforced), Box::new(move || c10::sonic(&c, 11)));
            }
            for which in 0..=13usize {
                let mut c = mkc(Size::uni(4, 3, 0), vec![PolySpec::new(4).conc()]);
                c.sym_points = false;
                c.sym_ch = false;
                let c2 = c.clone();
                add(format!("ligero-uni/c{}", which), format!("{:?} concrete polynomial/point, natural challenges", c.sz), Box::new(move || c10::ligero::<LigeroUni>(&c2, which, true)));
                let mut c = mkc(Size::mv(2, 1, 0), vec![PolySpec::new(1).conc()]);
                c.sym_points = false;
                c.sym_ch = false;
                add(format!("ligero-ml/c{}", which), format!("{:?} concrete polynomial/point, natural challenges", c.sz), Box::new(move || c10::ligero::<LigeroMl>(&c, which, false)));
                // two polynomials of equal size in one opening (the component replaced belongs to the second one)
                if [0usize, 1, 3, 5, 8, 12].contains(&which) {
                    let mut c = mkc(Size::uni(4, 3, 0), vec![PolySpec::new(4).conc(), PolySpec::new(4).conc()]);
                    c.sym_points = false;
                    c.sym_ch = false;
                    add(format!("ligero-uni/2p-c{}", which), format!("{:?} two concrete polynomials of one size, natural challenges", c.sz), Box::new(move || c10::ligero::<LigeroUni>(&c, which, true)));
                    let mut c = mkc(Size::mv(2, 1, 0), vec![PolySpec::new(1).conc(), PolySpec::new(1).conc()]);
                    c.sym_points = false;
                    c.sym_ch = false;
                    add(format!("ligero-ml/2p-c{}", which), format!("{:?} two concrete polynomials, natural challenges", c.sz), Box::new(move || c10::ligero::<LigeroMl>(&c, which, false)));
                }
                // Brakedown: below the base length (default parameters, 2 variables) and in the recursive regime
                // (hand-made parameters with base length 3, 4 variables: A 8x2, Reed-Solomon 2 -> 4, B 4x1)
                let mut c = mkc(Size::mv(2, 1, 0), vec![PolySpec::new(1).conc()]);
                c.sym_points = false;
                c.sym_ch = false;
                add(format!("brakedown/c{}", which), format!("{:?} default parameters, concrete polynomial/point, natural challenges", c.sz), Box::new(move || c10::brakedown::<Brakedown>(&c, which)));
                let mut c = mkc(Size::mv(4, 1, 0), vec![PolySpec::new(1).conc()]);
                c.sym_points = false;
                c.sym_ch = false;
                add(format!("brakedown-rec/c{}", which), format!("{:?} base length 3 (one recursion level), concrete polynomial/point, natural challenges", c.sz), Box::new(move || c10::brakedown::<BrakedownRec>(&c, which)));
            }
            for which in 0..=9usize {
                add(format!("kzg10/check-c{}", which), "max_degree 3, 2 coefficients, hiding 1".into(), Box::new(move || c10::kzg10(which, false, seed)));
                add(format!("kzg10/batch-c{}", which), "max_degree 3, 2 proofs (hiding 1 and none), 2 coefficients".into(), Box::new(move || c10::kzg10(which, true, seed)));
                add(format!("mlpst/c{}", which), "2 variables".into(), Box::new(move || c10::mlpst(which, seed)));
            }
            for which in 0..=4usize {
                add(format!("streaming/verify-c{}", which), "max_degree 4, 2 coefficients".into(), Box::new(move || c10::streaming(which, false, seed)));
                add(format!("streaming/multi-c{}", which), "max_degree 4, 2 points, 2 polynomials (2 and 3 coefficients)".into(), Box::new(move || c10::streaming(which, true, seed)));
            }
        }
        "C11" => {
            c11_family::<Marlin>(t, seed, out);
            c11_family::<Sonic>(t, seed, out);
            c11_family::<Ipa>(t, seed, out);
            c11_family::<Pst13>(t, seed, out);
            c11_family::<Hyrax>(t, seed, out);
            c11_family::<LigeroUni>(t, seed, out);
            c11_family::<LigeroMl>(t, seed, out);
            c11_family::<Brakedown>(t, seed, out);
            c11_family::<BrakedownRec>(t, seed, out);
        }
        "C17" => {
            let f = vec!["kzg10::KZG10::{check_degree_is_too_large,check_hiding_bound,check_degrees_and_bounds}", "MarlinPST13::{check_degrees_and_bounds,check_hiding_bound}", "InnerProductArgPC::check_degrees_and_bounds", "HyraxPC::{setup,commit,open,check}", "PolynomialCommitment::{setup,trim,commit,batch_open,batch_check}", "MultilinearPC::{setup,commit,open,check}"];
            let quick = t == Tier::Quick;
            let symtxt = "polynomial coefficients (the degree is value-dependent), points, challenges";
            let mut add = |id: String, bounds: String, run: Box<dyn Fn() -> Verdict>| {
                let mut en = e(id, t, symtxt, bounds, move || run());
                en.funcs = f.clone();
                if quick { en.lim.wall_s = 45.0; }
                out.push(en);
            };
            add("ligero/unusable-parameters".into(), "rho_inv above, at and below the field's two-adicity (32); OptionalRng with and without a generator (input-free)".into(), Box::new(c17::ligero_unusable_params));
            macro_rules! uni {
                ($S:ty) => {{
                    let name = <$S as Sch>::NAME;
                    let (maxd, sup) = if <$S as Sch>::NAME == "ipa" { (7usize, 3usize) } else { (5, 3) };
                    let mut c = Cfg::new(Size::uni(maxd, sup, 1), vec![PolySpec::new(sup + 2)]); c.seed = seed;
                    let c2 = c.clone();
                    add(format!("{}/degree-vs-supported", name), format!("{:?}, {} coefficients", c.sz, sup + 2), Box::new(move || c17::degree_too_large::<$S>(&c2)));
                    let mut c = Cfg::new(Size::uni(maxd, sup, 1), vec![PolySpec::new(sup + 2).hide(1)]); c.seed = seed;
                    let c2 = c.clone();
                    add(format!("{}/degree-vs-supported-hiding", name), format!("{:?}, {} coefficients, hiding 1", c.sz, sup + 2), Box::new(move || c17::degree_too_large::<$S>(&c2)));
                    let mut c = Cfg::new(Size::uni(maxd, sup, 0), vec![PolySpec::new(sup + 2)]); c.seed = seed;
                    let c2 = c.clone();
                    add(format!("{}/open-degree-vs-supported", name), format!("{:?}, {} coefficients, committed under a key trimmed to max_degree, opened under the key trimmed to supported", c.sz, sup + 2), Box::new(move || c17::open_too_large::<$S>(&c2)));
                    if name != "ipa" {
                        // verifier side: a commitment labelled with a bound the verifier key was not trimmed for (C04's driver)
                        let mut c = Cfg::new(Size::uni(maxd, sup, 0), vec![PolySpec::new(sup + 1)]); c.seed = seed; c.enforced = Some(vec![sup]);
                        let c2 = c.clone();
                        add(format!("{}/verifier-unsupported-bound", name), format!("{:?}; unbounded commitment presented with bound {} (enforced: {})", c.sz, sup - 1, sup), Box::new(move || c04::verifier_side::<$S>(&c2, Attack::Relabel(sup - 1), false)));
                    }
                    if name != "ipa" {
                        // a combination mixing a degree-bounded polynomial with other terms is outside the domain
                        let mut c = Cfg::new(Size::uni(maxd, sup, 0), vec![PolySpec::new(2).conc().bound(sup - 1), PolySpec::new(2).conc()]); c.seed = seed; c.npoints = 1;
                        for (tag, lc) in [("lc-degbound-mixed", vec![T::P(1), T::P(0)]), ("lc-degbound-mixed-const", vec![T::P1(0), T::One, T::P(1)])] {
                            let c2 = c.clone();
                            let shape = LcShape { lcs: vec![lc], queries: vec![(0, 0)] };
                            add(format!("{}/{}", name, tag), format!("{:?}; {:?}", c.sz, shape), Box::new(move || c06::run::<$S>(&c2, &shape, Pert::ExpectDegBoundErr, false)));
                        }
                    }
                    if name != "ipa" {
                        for (tag, h) in [("hiding-above-key", 2usize), ("hiding-far-above-key", 4), ("hiding-zero", 0)] {
                            let mut c = Cfg::new(Size::uni(maxd, sup, 1), vec![PolySpec::new(2).hide(h)]); c.seed = seed;
                            let c2 = c.clone();
                            add(format!("{}/{}", name, tag), format!("{:?}, hiding bound {}", c.sz, h), Box::new(move || c17::hiding_out_of_range::<$S>(&c2)));
                        }
                    }
                }};
            }
            uni!(Marlin);
            uni!(Sonic);
            uni!(Ipa);
            {
                let mut c = Cfg::new(Size::mv(2, 2, 1), vec![PolySpec::new(2).hide(3)]); c.seed = seed;
                let c2 = c.clone();
                add("pst13/hiding-above-key".into(), format!("{:?}, hiding bound 3", c.sz), Box::new(move || c17::hiding_out_of_range::<Pst13>(&c2)));
                let mut c = Cfg::new(Size::mv(2, 2, 1), vec![PolySpec::new(2).hide(0)]); c.seed = seed;
                let c2 = c.clone();
                add("pst13/hiding-zero".into(), format!("{:?}, hiding bound 0", c.sz), Box::new(move || c17::hiding_out_of_range::<Pst13>(&c2)));
            }
            macro_rules! look {
                ($S:ty) => {{
                    let name = <$S as Sch>::NAME;
                    for (tag, l) in [("unknown-label", Lookup::UnknownLabel), ("missing-evaluation", Lookup::MissingEvaluation), ("missing-commitment", Lookup::MissingCommitment)] {
                        let mut c = Cfg::new(std_size::<$S>(t, 0), vec![PolySpec::new(2).conc(), PolySpec::new(2).conc()]).points(2, vec![(0, 0), (1, 0), (1, 1)]);
                        c.seed = seed;
                        c.rng_nonzero = true;
                        let c2 = c.clone();
                        add(format!("{}/{}", name, tag), format!("{:?}", c.sz), Box::new(move || c17::lookups::<$S>(&c2, l)));
                    }
                }};
            }
            look!(Marlin);
            look!(Sonic);
            look!(Ipa);
            look!(Pst13);
            look!(Hyrax);
            look!(LigeroUni);
            look!(LigeroMl);
            look!(Brakedown);
            add("setup/degenerate-requests".into(), "zero degree, zero/odd/missing variables, trim beyond the parameters".into(), Box::new(move || c17::setup_degenerate(seed)));
            for which in 0..=7usize {
                add(format!("num-vars/scenario-{}", which), "Hyrax / PST13 / multilinear PST with mismatched numbers of variables".into(), Box::new(move || c17::wrong_num_vars(which, seed)));
            }
            {
                let mut c = Cfg::new(Size::mv(2, 1, 0), vec![PolySpec::new(1).conc(), PolySpec::new(1).conc()]); c.seed = seed;
                let c2 = c.clone();
                add("hyrax/mismatched-labels".into(), format!("{:?}", c.sz), Box::new(move || c17::mismatched_labels(&c2)));
            }
        }
        "C12" => {
            let f = vec!["CanonicalSerialize/CanonicalDeserialize/Valid impls of every UniversalParams, CommitterKey, VerifierKey, Commitment, CommitmentState, Proof, BatchProof, BatchLCProof", "check/batch_check with deserialized inputs"];
            let quick = t == Tier::Quick;
            let symtxt = "polynomial coefficients, points, challenges, blinding (they select option/shape variants and special values); the round trips themselves are concrete";
            {
                let mut en = e("kzg10/powers".into(), t, "nothing (concrete)", "kzg10::Powers from Marlin and Sonic keys: (supported, hiding) in {(3,1),(2,2),(2,4),(1,6),(8,0)}, plain and shifted".into(), move || c12::kzg_powers(seed));
                en.funcs = vec!["kzg10::Powers::{serialize_with_mode,serialized_size,deserialize_with_mode,check}", "marlin_pc::CommitterKey::{powers,shifted_powers}", "sonic_pc::CommitterKey::{powers,shifted_powers}"];
                out.push(en);
                for nv in if quick { vec![1usize, 3] } else { vec![1usize, 2, 3, 4] } {
                    let mut en = e(format!("mlpst/artefacts-nv{}", nv), t, "nothing (concrete)", format!("{} variables", nv), move || c12::mlpst_artefacts(nv, seed));
                    en.funcs = vec!["multilinear_pc::{UniversalParams,CommitterKey,VerifierKey,Commitment,Proof} (derived impls)"];
                    out.push(en);
                }
            }
            macro_rules! fam {
                ($S:ty) => {{
                    let name = <$S as Sch>::NAME;
                    let mut shapes: Vec<(&str, Vec<PolySpec>, usize, Option<Vec<usize>>, bool)> = vec![];
                    let sup = std_size::<$S>(t, 0).supported;
                    shapes.push(("plain", vec![PolySpec::new(2), PolySpec::new(2).conc()], 0, None, false));
                    if <$S as Sch>::HIDING && name != "hyrax" {
                        shapes.push(("hiding", vec![PolySpec::new(2).conc().hide(1), PolySpec::new(2).conc()], 1, None, false));
                    }
                    if <$S as Sch>::BOUNDS {
                        shapes.push(("bounds", vec![PolySpec::new(2).conc().bound(sup - 1), PolySpec::new(2).conc().bound(sup)], 0, Some(vec![sup, sup - 1, sup - 1]), false));
                        // symbolic coefficients under a bound: the zero polynomial (identity shifted commitment) is reached
                        shapes.push(("bound-symbolic-poly", vec![PolySpec::new(1).bound(sup - 1)], 0, Some(vec![sup - 1]), false));
                        shapes.push(("full-srs", vec![PolySpec::new(2).conc().bound(sup)], 0, Some(vec![sup]), true));
                        if <$S as Sch>::HIDING {
                            // several enforced bounds, the smallest below the supported hiding bound; hiding polynomials under the larger ones
                            shapes.push(("hiding-bounds", vec![PolySpec::new(2).conc().bound(sup).hide(2), PolySpec::new(2).conc().bound(sup - 1).hide(1), PolySpec::new(2).conc()], 2, Some(vec![1, sup - 1, sup]), false));
                        }
                    }
                    if name == "pst13" {
                        shapes.push(("nv3-deg2", vec![PolySpec::new(2).conc()], 0, None, false));
                    }
                    for (tag, polys, hid, enforced, full) in shapes {
                        let mut sz = std_size::<$S>(t, hid);
                        if full { sz.max_degree = sz.supported; }
                        if tag == "nv3-deg2" { sz = Size::mv(3, 2, 0); }
                        let n = polys.len();
                        let mut c = Cfg::new(sz, polys).points(2, (0..n).map(|i| (i, 0)).chain([(0usize, 1usize)]).collect());
                        c.seed = seed;
                        c.enforced = enforced;
                        c.rng_nonzero = true;
                        let c2 = c.clone();
                        let mut en = e(format!("{}/{}", name, tag), t, symtxt, format!("{:?}; polys {:?}; enforced {:?}", c.sz, c.polys, c.enforced), move || c12::artefacts::<$S>(&c2, true));
                        en.funcs = f.clone();
                        if quick { en.lim.wall_s = 60.0; en.lim.max_runs = 40; }
                        out.push(en);
                    }
                }};
            }
            fam!(Marlin);
            fam!(Sonic);
            fam!(Ipa);
            fam!(Pst13);
            fam!(Hyrax);
            fam!(LigeroUni);
            fam!(LigeroMl);
            fam!(Brakedown);
            fam!(BrakedownRec);
        }
        "C13" => {
            let f = vec!["linear_codes::utils::{calculate_t,get_indices_from_sponge,reed_solomon}", "LinearCodePCS::{commit,open,check}", "generate_proof", "LinearEncode::encode (UnivariateLigero, MultilinearLigero, MultilinearBrakedown)", "SprsMat::row_mul"];
            let quick = t == Tier::Quick;
            let thorough = !quick;
            {
                let mut en = e("calculate-t/exact-grid".into(), t, "nothing (concrete oracle: exact rational evaluation of the bound at t and t-1 over a parameter grid)", "lambda x distance x codeword length grid, see driver".into(), move || c13::t_minimal(thorough));
                en.funcs = f.clone();
                out.push(en);
            }
            {
                let mut en = e("distance/parameter-sets".into(), t, "nothing (input-free)", "Ligero rho_inv 2..16, Brakedown defaults and four custom (beta, rho_inv) pairs".into(), move || c13::distances(seed));
                en.funcs = f.clone();
                out.push(en);
            }
            use ark_poly_commit::linear_codes::{MultilinearBrakedown, MultilinearLigero, UnivariateLigero};
            use crate::engine::ro::{RoColHash, RoMT};
            let mkc = |sz: Size, polys: Vec<PolySpec>| { let mut c = Cfg::new(sz, polys); c.seed = seed; c };
            for (rho, sec) in [(4usize, 128usize), (2, 128), (2, 40)] {
                for n in if quick { vec![4usize, 9] } else { vec![2usize, 4, 9, 16, 33] } {
                    let mut sz = Size::uni(64, 64, 0);
                    sz.ligero = (sec, rho, true);
                    let c = mkc(sz, vec![PolySpec::new(n).conc()]);
                    let c2 = c.clone();
                    let mut en = e(format!("ligero-uni/cols-n{}-rho{}-sec{}", n, rho, sec), t, "point, challenges (polynomial concrete-random)", format!("{} coefficients, rho_inv {}, lambda {}", n, rho, sec), move || c13::cols_count::<LigeroUni>(&c2, (rho - 1, rho), sec));
                    en.funcs = f.clone();
                    if quick { en.lim.wall_s = 45.0; en.lim.max_runs = 20; }
                    out.push(en);
                }
            }
            // one opening over polynomials with different codeword lengths (the cap t <= n is active for the short one)
            for (tag, lens) in [("n4+n33", vec![4usize, 33]), ("n33+n4", vec![33usize, 4]), ("n9+n2+n16", vec![9usize, 2, 16])] {
                if quick && lens.len() == 3 { continue; }
                let mut sz = Size::uni(64, 64, 0);
                sz.ligero = (128, 2, true);
                let c = mkc(sz, lens.iter().map(|n| PolySpec::new(*n).conc()).collect());
                let mut en = e(format!("ligero-uni/cols-batch-{}", tag), t, "point, challenges (polynomials concrete-random)", format!("{:?} coefficients in one opening, rho_inv 2, lambda 128", lens), move || c13::cols_count::<LigeroUni>(&c, (1, 2), 128));
                en.funcs = f.clone();
                if quick { en.lim.wall_s = 45.0; en.lim.max_runs = 20; }
                out.push(en);
            }
            // verifier side of "exactly t columns": a proof with fewer columns (v and the well-formedness vector chosen
            // freely) is not accepted for another value
            macro_rules! fewer {
                ($S:ty, $len:expr) => {{
                    for (id, m) in [("verifier-cols-drop-last", LcMut::ColsDropLast), ("verifier-cols-none", LcMut::ColsNone)] {
                        let mut c = Cfg::new(std_size::<$S>(t, 0), vec![PolySpec::new($len).conc()]);
                        c.seed = seed;
                        c.sym_points = false;
                        c.sym_ch = false;
                        let c2 = c.clone();
                        let mut en = e(format!("{}/{}", <$S as Sch>::NAME, id), t, "opened combination v, well-formedness vector, claimed value", format!("{:?}; concrete-random polynomial and point", c.sz), move || c03::lincode::<$S>(&c2, m, false));
                        en.funcs = f.clone();
                        en.lim.deep_first = true;
                        if quick { en.lim.wall_s = 45.0; }
                        out.push(en);
                    }
                }};
            }
            fewer!(LigeroUni, 4);
            fewer!(LigeroMl, 1);
            fewer!(Brakedown, 1);
            fewer!(BrakedownRec, 1);
            for nv in if quick { vec![2usize, 4] } else { vec![2usize, 4, 6] } {
                let mut sz = Size::mv(nv, 1, 0);
                sz.ligero = (128, 2, true);
                let c = mkc(sz, vec![PolySpec::new(1).conc()]);
                let c2 = c.clone();
                let mut en = e(format!("ligero-ml/cols-nv{}", nv), t, "point, challenges", format!("{} variables, rho_inv 2, lambda 128", nv), move || c13::cols_count::<LigeroMl>(&c2, (1, 2), 128));
                en.funcs = f.clone();
                if quick { en.lim.wall_s = 45.0; en.lim.max_runs = 20; }
                out.push(en);
                let c2 = c.clone();
                let mut en = e(format!("brakedown/cols-nv{}", nv), t, "point, challenges", format!("{} variables, default parameters", nv), move || c13::cols_count::<Brakedown>(&c2, (1000 * 61, 1521 * 1000), 128));
                en.funcs = f.clone();
                if quick { en.lim.wall_s = 45.0; en.lim.max_runs = 20; }
                out.push(en);
            }
            // linearity of the row encoding
            for (n, m) in [(4usize, 2usize), (9, 3), (16, 4)] {
                if quick && n == 16 { continue; }
                let mut sz = Size::uni(64, 64, 0);
                sz.ligero = (128, 4, true);
                let c = mkc(sz, vec![PolySpec::new(n).conc()]);
                let c2 = c.clone();
                let mut en = e(format!("ligero-uni/encode-linear-m{}", m), t, "scalars a, b and both messages x, y", format!("message length {} (Reed-Solomon, rho_inv 4)", m), move || c13::encode_linear::<LigeroUni, UnivariateLigero<crate::engine::sf::SF, RoMT, UP, RoColHash>>(&c2, m));
                en.funcs = f.clone();
                out.push(en);
            }
            for nv in if quick { vec![2usize, 4] } else { vec![2usize, 4, 6] } {
                let mut sz = Size::mv(nv, 1, 0);
                sz.ligero = (128, 2, true);
                let c = mkc(sz, vec![PolySpec::new(1).conc()]);
                let m = 1usize << (nv / 2);
                let c2 = c.clone();
                let mut en = e(format!("ligero-ml/encode-linear-nv{}", nv), t, "scalars a, b and both messages x, y", format!("{} variables", nv), move || c13::encode_linear::<LigeroMl, MultilinearLigero<crate::engine::sf::SF, RoMT, ML, RoColHash>>(&c2, m));
                en.funcs = f.clone();
                out.push(en);
                let c2 = c.clone();
                let mut en = e(format!("brakedown/encode-linear-nv{}", nv), t, "scalars a, b and both messages x, y (sparse matrices concrete)", format!("{} variables, default parameters", nv), move || c13::encode_linear::<Brakedown, MultilinearBrakedown<crate::engine::sf::SF, RoMT, ML, RoColHash>>(&c2, m));
                en.funcs = f.clone();
                out.push(en);
            }
            // Brakedown in the regime where the recursion (sparse matrices) is actually used: row length >= base length 30
            for nv in if quick { vec![5usize] } else { vec![5usize, 6, 7] } {
                let c = mkc(Size::mv(nv, 1, 0), vec![PolySpec::new(1).conc()]);
                let c2 = c.clone();
                let mut en = e(format!("brakedown/encode-ref-nv{}", nv), t, "the whole message (2^nv field elements); sparse matrices concrete", format!("{} variables, default parameters: message length {} >= base length 30, one or more recursion levels", nv, 1usize << nv), move || c13::brakedown_encode_ref::<Brakedown>(&c2));
                en.funcs = f.clone();
                out.push(en);
            }
            {
                let c = mkc(Size::mv(4, 1, 0), vec![PolySpec::new(1).conc()]);
                let c2 = c.clone();
                let mut en = e("brakedown-rec/encode-ref-nv4".into(), t, "the whole message (8 field elements); sparse matrices concrete", "hand-made parameters, base length 3, message length 8, one recursion level".into(), move || c13::brakedown_encode_ref::<BrakedownRec>(&c2));
                en.funcs = f.clone();
                out.push(en);
                let c2 = c.clone();
                let mut en = e("brakedown-rec/cols-nv4".into(), t, "point, challenges", "4 variables, hand-made parameters (base length 3)".into(), move || c13::cols_count::<BrakedownRec>(&c2, (1000 * 61, 1521 * 1000), 128));
                en.funcs = f.clone();
                if quick { en.lim.wall_s = 45.0; en.lim.max_runs = 20; }
                out.push(en);
                let m = 8usize;
                let c2 = c.clone();
                let mut en = e("brakedown-rec/encode-linear-nv4".into(), t, "scalars a, b and both messages x, y (sparse matrices concrete)", "4 variables, hand-made parameters (base length 3)".into(), move || c13::encode_linear::<BrakedownRec, MultilinearBrakedown<crate::engine::sf::SF, RoMT, ML, RoColHash>>(&c2, m));
                en.funcs = f.clone();
                out.push(en);
            }
            {
                let nvs: Vec<usize> = if quick { vec![2, 5, 6, 8] } else { vec![2, 4, 5, 6, 7, 8, 10, 12] };
                let mut en = e("brakedown/matrices".into(), t, "nothing (concrete: 3 RNG seeds per size)", format!("default parameters for {:?} variables", nvs), move || c13::brakedown_matrices(seed, &nvs));
                en.funcs = vec!["BrakedownPCParams::{default,new,mat_size,cn,make_mat,make_all}", "SprsMat::new_from_columns"];
                out.push(en);
            }
        }
        "C19" => {
            let f = vec!["CanonicalSerialize of Commitment/Proof of every scheme", "LigeroPCParams::compute_dimensions", "BrakedownPCParams::default", "calculate_t", "InnerProductArgPC::{trim,open}", "HyraxPC::{commit,open}", "MarlinPST13::open"];
            let quick = t == Tier::Quick;
            let symtxt = "point, challenges, blinding (polynomials concrete-random along the size ladder)";
            let mut add = |id: String, bounds: String, run: Box<dyn Fn() -> Verdict>| {
                let mut en = e(id, t, symtxt, bounds, move || run());
                en.funcs = f.clone();
                if quick { en.lim.wall_s = 45.0; en.lim.max_runs = 12; } else { en.lim.max_runs = 60; }
                out.push(en);
            };
            let ladder: Vec<usize> = if quick { vec![2, 3, 7, 16, 33] } else { vec![2, 3, 4, 7, 8, 15, 16, 33, 64, 128] };
            for d in &ladder {
                let d = *d;
                for (tag, bound, hid) in [("plain", None, None), ("bound", Some(d), None), ("hiding", None, Some(1usize)), ("bound-hiding", Some(d), Some(1))] {
                    if quick && (tag == "bound" || tag == "hiding") && d > 4 { continue; }
                    let mk = move |npolys: usize| -> Cfg {
                        let mut ps = PolySpec::new(d + 1).conc();
                        if let Some(b) = bound { ps = ps.bound(b); }
                        if let Some(h) = hid { ps = ps.hide(h); }
                        let mut c = Cfg::new(Size::uni(d + 1, d, hid.unwrap_or(0)), (0..npolys).map(|_| ps.clone()).collect());
                        c.seed = seed;
                        c.rng_nonzero = true;
                        c
                    };
                    for npolys in [1usize, 2] {
                        if quick && npolys == 2 && d > 4 { continue; }
                        let c = mk(npolys);
                        let c2 = c.clone();
                        add(format!("marlin/deg{}-{}-{}p", d, tag, npolys), format!("degree {}, {:?} {:?}", d, bound, hid), Box::new(move || c19::sizes::<Marlin>(&c2, |c, _| (1 + c.polys[0].bound.is_some() as usize, 1 + c.polys[0].hiding.is_some() as usize), true)));
                        let c2 = c.clone();
                        add(format!("sonic/deg{}-{}-{}p", d, tag, npolys), format!("degree {}, {:?} {:?}", d, bound, hid), Box::new(move || c19::sizes::<Sonic>(&c2, |c, _| (1, 1 + c.polys[0].hiding.is_some() as usize), true)));
                        let c2 = c.clone();
                        add(format!("ipa/deg{}-{}-{}p", d, tag, npolys), format!("degree {}, {:?} {:?}", d, bound, hid), Box::new(move || c19::sizes::<Ipa>(&c2, |c, _| {
                            let rounds = ((c.sz.supported + 1).next_power_of_two()).trailing_zeros() as usize;
                            (1 + c.polys[0].bound.is_some() as usize, 2 * rounds + 2 + 2 * (c.polys[0].hiding.is_some() as usize))
                        }, true)));
                    }
                }
            }
            for (nv, deg) in if quick { vec![(1usize, 2usize), (2, 2), (3, 2)] } else { vec![(1, 2), (1, 4), (2, 2), (2, 3), (3, 2), (4, 2)] } {
                for hid in [None, Some(1usize)] {
                    let mut ps = PolySpec::new(deg + 1).conc();
                    if let Some(h) = hid { ps = ps.hide(h); }
                    let mut c = Cfg::new(Size::mv(nv, deg, hid.unwrap_or(0)), vec![ps]);
                    c.seed = seed; c.rng_nonzero = true;
                    let c2 = c.clone();
                    add(format!("pst13/nv{}-deg{}{}", nv, deg, if hid.is_some() { "-hiding" } else { "" }), format!("{} variables degree {}", nv, deg), Box::new(move || c19::sizes::<Pst13>(&c2, |c, _| (1, c.sz.num_vars + c.polys[0].hiding.is_some() as usize), true)));
                }
            }
            // symbolic coefficients: constants and polynomials that do not involve the last variable(s) are explored
            for nv in if quick { vec![2usize, 3] } else { vec![2usize, 3, 4] } {
                let mut c = Cfg::new(Size::mv(nv, 1, 0), vec![PolySpec::new(2)]);
                c.seed = seed; c.rng_nonzero = true;
                let c2 = c.clone();
                add(format!("pst13/nv{}-deg1-symbolic-poly", nv), format!("{} variables degree 1, all coefficients symbolic", nv), Box::new(move || c19::sizes::<Pst13>(&c2, |c, _| (1, c.sz.num_vars), true)));
            }
            for nv in if quick { vec![2usize, 4] } else { vec![2usize, 4, 6, 8] } {
                let mut c = Cfg::new(Size::mv(nv, 1, 0), vec![PolySpec::new(1).conc()]);
                c.seed = seed; c.rng_nonzero = true;
                let c2 = c.clone();
                add(format!("hyrax/nv{}", nv), format!("{} variables", nv), Box::new(move || c19::sizes::<Hyrax>(&c2, |c, np| { let dim = 1usize << (c.sz.num_vars / 2); (dim, np * (3 + dim + 2)) }, true)));
                let mut sz = Size::mv(nv, 1, 0);
                sz.ligero = (128, 2, true);
                let mut c = Cfg::new(sz, vec![PolySpec::new(1).conc()]);
                c.seed = seed;
                let c2 = c.clone();
                add(format!("ligero-ml/nv{}", nv), format!("{} variables", nv), Box::new(move || c19::lincode::<LigeroMl>(&c2, (1, 2), 128, (2, 1), true)));
                let c2 = c.clone();
                add(format!("brakedown/nv{}", nv), format!("{} variables", nv), Box::new(move || c19::lincode::<Brakedown>(&c2, (1000 * 61, 1521 * 1000), 128, (1521, 1000), true)));
            }
            // a low security parameter brings small sizes into the regime the shape law speaks about
            // (required column openings below the codeword length)
            // (4096 and 16384 coefficients: deep enough in the regime for a wrong growth rate of the shape to exceed the factor)
            for n in if quick { vec![32usize, 64, 100, 4096] } else { vec![32usize, 64, 100, 128, 200, 256, 1024, 4096, 16384] } {
                let mut sz = Size::uni(n.max(300), n.max(300), 0);
                sz.ligero = (20, 4, true);
                let mut c = Cfg::new(sz, vec![PolySpec::new(n).conc()]);
                c.seed = seed;
                let c2 = c.clone();
                add(format!("ligero-uni-sec20/n{}", n), format!("{} coefficients, lambda 20, rho_inv 4", n), Box::new(move || c19::lincode::<LigeroUni>(&c2, (3, 4), 20, (4, 1), true)));
            }
            for nv in if quick { vec![6usize, 7] } else { vec![6usize, 7, 8] } {
                let mut sz = Size::mv(nv, 1, 0);
                sz.ligero = (20, 2, true);
                let mut c = Cfg::new(sz, vec![PolySpec::new(1).conc()]);
                c.seed = seed;
                let c2 = c.clone();
                add(format!("ligero-ml-sec20/nv{}", nv), format!("{} variables, lambda 20, rho_inv 2", nv), Box::new(move || c19::lincode::<LigeroMl>(&c2, (1, 2), 20, (2, 1), true)));
            }
            for n in if quick { vec![2usize, 4, 16, 33] } else { vec![2usize, 3, 4, 8, 16, 33, 64, 128, 257] } {
                let mut sz = Size::uni(300, 300, 0);
                sz.ligero = (128, 4, true);
                let mut c = Cfg::new(sz, vec![PolySpec::new(n).conc()]);
                c.seed = seed;
                let c2 = c.clone();
                add(format!("ligero-uni/n{}", n), format!("{} coefficients", n), Box::new(move || c19::lincode::<LigeroUni>(&c2, (3, 4), 128, (4, 1), true)));
            }
            // one commit call over polynomials of very different sizes: each keeps the shape its own size dictates
            for (tag, lens, sec) in [("n129+n16+n3", vec![129usize, 16, 3], 128usize), ("n3+n64", vec![3usize, 64], 128), ("sec20-n200+n5", vec![200usize, 5], 20)] {
                if quick && tag == "n3+n64" { continue; }
                let mut sz = Size::uni(300, 300, 0);
                sz.ligero = (sec, 4, true);
                let mut c = Cfg::new(sz, lens.iter().map(|n| PolySpec::new(*n).conc()).collect());
                c.seed = seed;
                add(format!("ligero-uni/one-commit-{}", tag), format!("{:?} coefficients committed in one call, lambda {}", lens, sec), Box::new(move || c19::lincode::<LigeroUni>(&c, (3, 4), sec, (4, 1), true)));
            }
        }
        "C14" => {
            let f = vec!["streaming_kzg::CommitterKey::{new,commit,batch_commit,open,open_multi_points,batch_open_multi_points}", "CommitterKeyStream::{commit,open,open_multi_points,commit_folding}", "VerifierKey::{verify,verify_multi_points}", "FoldedPolynomialTree/Stream iterators"];
            let quick = t == Tier::Quick;
            let lens: Vec<usize> = if quick { vec![1, 2, 5] } else { (1..=9).collect() };
            let bufs: Vec<usize> = if quick { vec![1, 3, 1 << 20] } else { vec![1, 2, 3, 5, 1 << 20] };
            for n in &lens {
                for b in &bufs {
                    let (n, b) = (*n, *b);
                    let mut en = e(format!("single/n{}-buf{}", n, b), t, "coefficients, point, delta", format!("{} coefficients, msm buffer {}", n, b), move || c14::single(n, b, seed));
                    en.funcs = f.clone();
                    out.push(en);
                }
            }
            for (n, pts) in if quick { vec![(1usize, 1usize), (3, 2), (2, 1)] } else { vec![(1usize, 1usize), (2, 1), (3, 1), (3, 2), (5, 3)] } {
                let mut en = e(format!("keys/interop-n{}-pts{}", n, pts), t, "coefficients of three polynomials, point, index-vector values, delta", format!("{} coefficients, key made for {} evaluation point(s); as_committer_key, VerifierKey::from(&stream), batch_commit (equal and shrinking lengths), index_by, proof addition", n, pts), move || c14::key_interop(n, pts, seed));
                en.funcs = vec!["CommitterKeyStream::{as_committer_key,commit}", "VerifierKey::from(&CommitterKeyStream)", "CommitterKey::{batch_commit,index_by,open}", "EvaluationProof::{add,sum}", "Commitment::size_in_bytes"];
                if quick { en.lim.wall_s = 45.0; }
                out.push(en);
            }
            let multis: Vec<(usize, usize, usize)> = if quick { vec![(3, 1, 1), (4, 2, 2), (5, 3, 1), (4, 3, 3)] } else { vec![(3, 1, 1), (4, 2, 2), (5, 3, 1), (6, 3, 2), (8, 2, 3), (7, 4, 1)] };
            for (n, m, k) in multis {
                for b in [1usize, 1 << 20] {
                    let mut en = e(format!("multi/n{}-pts{}-polys{}-buf{}", n, m, k, b), t, "coefficients of all polynomials, distinct points, eta (!= 0), delta", format!("{} coefficients, {} points, {} polynomials, buffer {}", n, m, k, b), move || c14::multi(n, m, k, b, seed));
                    en.funcs = f.clone();
                    if quick { en.lim.wall_s = 45.0; }
                    out.push(en);
                }
            }
            for (n, k) in if quick { vec![(3usize, 1usize)] } else { vec![(3usize, 1usize), (4, 2)] } {
                let mut en = e(format!("multi/repeated-point-n{}-polys{}", n, k), t, "coefficients, two distinct points (the first named twice), eta (!= 0), delta", format!("{} coefficients, {} polynomial(s), points [x0, x1, x0]", n, k), move || c14::multi_repeated_point(n, k, seed));
                en.funcs = f.clone();
                if quick { en.lim.wall_s = 45.0; }
                out.push(en);
            }
            // a zero polynomial (an all-zero row of claimed evaluations) inside the batch, followed by non-zero ones
            for (n, m, k, z) in if quick { vec![(3usize, 2usize, 2usize, 0usize), (3, 2, 3, 1)] } else { vec![(3usize, 2usize, 2usize, 0usize), (3, 2, 3, 1), (4, 3, 3, 0), (3, 1, 2, 0)] } {
                let mut en = e(format!("multi/zero-poly@{}-n{}-pts{}-polys{}", z, n, m, k), t, "coefficients of the other polynomials, distinct points, eta (!= 0), delta", format!("{} coefficients, {} points, {} polynomials, polynomial {} is zero", n, m, k, z), move || c14::multi_z(n, m, k, 1 << 20, seed, Some(z)));
                en.funcs = f.clone();
                if quick { en.lim.wall_s = 45.0; }
                out.push(en);
            }
            let maxn = if quick { 9 } else { 17 };
            let maxk = if quick { 3 } else { 4 };
            for n in 1..=maxn {
                for k in 0..=maxk {
                    let mut en = e(format!("fold/n{}-k{}", n, k), t, "coefficients, folding challenges, batching challenge eta", format!("{} coefficients, {} challenges; open_folding at 2 concrete points with n + 3 powers", n, k), move || c14::fold(n, k, 4, seed));
                    en.funcs = f.clone();
                    // every coefficient's zero-ness forks a path in the bucket MSMs; the comparisons are identities,
                    // so the larger shapes get a time budget instead of path exhaustion
                    if quick { en.lim.wall_s = 40.0; } else { en.lim.wall_s = 240.0; }
                    out.push(en);
                }
            }
        }
        _ => {}
    }
    let _ = &mut out;
}
