//! C14 streaming KZG: time- and space-efficient provers agree; verifier accepts truth, rejects value+delta;
//! folded-polynomial streams equal the naive fold.
use crate::engine::explore::{assume_ne, sym, sym_nonzero, Verdict};
use crate::engine::grp::ToyPairing;
use crate::engine::sf::SF;
use ark_ff::{UniformRand, Zero};
use ark_poly_commit::streaming_kzg::{CommitterKey, CommitterKeyStream, FoldedPolynomialStream, FoldedPolynomialTree, VerifierKey};
use ark_std::iterable::Iterable;
use ark_std::rand::{rngs::StdRng, SeedableRng};

fn horner(c: &[SF], z: SF) -> SF {
    let mut acc = SF::zero();
    for x in c.iter().rev() {
        acc = acc * z + *x;
    }
    acc
}
fn eval_be(c: &[SF], z: SF) -> SF {
    let mut acc = SF::zero();
    for x in c.iter() {
        acc = acc * z + *x;
    }
    acc
}
fn keys(max_degree: usize, pts: usize, seed: u64) -> (CommitterKey<ToyPairing>, SF) {
    let seed = seed ^ crate::engine::explore::replay_salt();
    let tau = SF::rand(&mut StdRng::seed_from_u64(seed + 77));
    let ck = CommitterKey::<ToyPairing>::new(max_degree, pts, &mut StdRng::seed_from_u64(seed + 77));
    (ck, tau)
}

pub fn single(n: usize, buf: usize, seed: u64) -> Verdict {
    let delta = sym_nonzero("delta");
    let (ck, _) = keys(n.max(1), 3, seed);
    let vk = VerifierKey::from(&ck);
    let cks = CommitterKeyStream::from(&ck);
    let f: Vec<SF> = (0..n).map(|j| sym(&format!("f{}", j))).collect();
    let a = sym("alpha");
    let mut rev = f.clone();
    rev.reverse();
    let s = rev.as_slice();
    let c1 = ck.commit(&f);
    let c2 = cks.commit(&s);
    if c1 != c2 {
        return Verdict::viol("commit-differs", "time and space commitments differ");
    }
    let (ev, pf) = ck.open(&f, &a);
    let (ev2, pf2) = cks.open(&s, &a, buf);
    if ev != ev2 {
        return Verdict::viol("eval-differs", "time and space evaluations differ");
    }
    if pf != pf2 {
        return Verdict::viol("proof-differs", "time and space evaluation proofs differ");
    }
    if ev != horner(&f, a) {
        return Verdict::viol("eval-wrong", "returned evaluation is not f(alpha)");
    }
    if vk.verify(&c1, &a, &ev, &pf).is_err() {
        return Verdict::viol("rejected", "honest single-point proof rejected");
    }
    if vk.verify(&c1, &a, &(ev + delta), &pf).is_ok() {
        return Verdict::viol("accepted-false-value", "verify accepted f(alpha)+delta");
    }
    Verdict::Hold
}

pub fn multi(n: usize, m: usize, k: usize, buf: usize, seed: u64) -> Verdict {
    multi_z(n, m, k, buf, seed, None)
}

/// `zero_at`: that polynomial of the batch is the zero polynomial (all its claimed evaluations are 0)
pub fn multi_z(n: usize, m: usize, k: usize, buf: usize, seed: u64, zero_at: Option<usize>) -> Verdict {
    let delta = sym_nonzero("delta");
    let eta = sym_nonzero("eta");
    let (ck, tau) = keys(n + k, m, seed);
    let vk = VerifierKey::from(&ck);
    let cks = CommitterKeyStream::from(&ck);
    let pts: Vec<SF> = (0..m).map(|j| sym(&format!("x{}", j))).collect();
    // documented precondition: the evaluation points are distinct; and none of them is the trapdoor
    for i in 0..m {
        for j in (i + 1)..m {
            if !assume_ne(pts[i], pts[j], "evaluation points not distinct") {
                return Verdict::Hold;
            }
        }
        if !assume_ne(pts[i], tau, "evaluation point equals the trapdoor") {
            return Verdict::Hold;
        }
    }
    // polynomial i has n + i coefficients (the batch mixes lengths, the first one is the shortest);
    // with k >= 3 the first one even has fewer coefficients than there are points
    let polys: Vec<Vec<SF>> = (0..k).map(|i| { let len = if k >= 3 && i == 0 { m.saturating_sub(1).max(1) } else { n + i }; (0..len).map(|j| if zero_at == Some(i) { SF::zero() } else { sym(&format!("f{}_{}", i, j)) }).collect() }).collect();
    let comms = ck.batch_commit(&polys);
    // time vs space on the last (longest) polynomial
    let p0 = polys[k - 1].clone();
    let mut rev = p0.clone();
    rev.reverse();
    let s = rev.as_slice();
    let pf_t = ck.open_multi_points(&p0, &pts);
    let (rem, pf_s) = cks.open_multi_points(&s, &pts, buf);
    if pf_t != pf_s {
        return Verdict::viol("multi-proof-differs", "time and space multi-point proofs differ");
    }
    for x in &pts {
        if eval_be(&rem, *x) != horner(&p0, *x) {
            return Verdict::viol("remainder-wrong", "space remainder does not interpolate the evaluations");
        }
    }
    // batched proof over all polynomials
    let refs: Vec<&Vec<SF>> = polys.iter().collect();
    let proof = ck.batch_open_multi_points(&refs[..], &pts, &eta);
    let mut evals: Vec<Vec<SF>> = polys.iter().map(|p| pts.iter().map(|x| horner(p, *x)).collect()).collect();
    if vk.verify_multi_points(&comms, &pts, &evals, &proof, &eta).is_err() {
        return Verdict::viol("rejected", "honest multi-point proof rejected");
    }
    evals[k - 1][m - 1] += delta;
    if vk.verify_multi_points(&comms, &pts, &evals, &proof, &eta).is_ok() {
        return Verdict::viol("accepted-false-value", "verify_multi_points accepted a perturbed evaluation");
    }
    Verdict::Hold
}

/// An evaluation-point list that names a point twice ([x0, x1, x0]) is outside the documented domain; whatever
/// prover and verifier do with it (abort included), a claimed evaluation that differs from the true one at any
/// occurrence - the repeated one in particular - must not be accepted.
pub fn multi_repeated_point(n: usize, k: usize, seed: u64) -> Verdict {
    use crate::drivers::common::catch;
    let delta = sym_nonzero("delta");
    let eta = sym_nonzero("eta");
    let (ck, tau) = keys(n + k, 3, seed);
    let vk = VerifierKey::from(&ck);
    let (x0, x1) = (sym("x0"), sym("x1"));
    if !assume_ne(x0, x1, "evaluation points not distinct") || !assume_ne(x0, tau, "evaluation point equals the trapdoor") || !assume_ne(x1, tau, "evaluation point equals the trapdoor") {
        return Verdict::Hold;
    }
    let pts = vec![x0, x1, x0];
    let polys: Vec<Vec<SF>> = (0..k).map(|i| (0..n + i).map(|j| sym(&format!("f{}_{}", i, j))).collect()).collect();
    let comms = ck.batch_commit(&polys);
    let refs: Vec<&Vec<SF>> = polys.iter().collect();
    let proof = match catch(|| ck.batch_open_multi_points(&refs[..], &pts, &eta)) {
        Ok(p) => p,
        Err(_) => return Verdict::Hold,
    };
    let evals: Vec<Vec<SF>> = polys.iter().map(|p| pts.iter().map(|x| horner(p, *x)).collect()).collect();
    for pos in [2usize, 0] {
        let mut bad = evals.clone();
        bad[k - 1][pos] += delta;
        if let Ok(Ok(())) = catch(|| vk.verify_multi_points(&comms, &pts, &bad, &proof, &eta)) {
            return Verdict::viol("accepted-false-value", format!("verify_multi_points accepted a perturbed evaluation at occurrence {} of a repeated point", pos));
        }
    }
    Verdict::Hold
}

fn naive_folds(coeffs: &[SF], ch: &[SF]) -> Vec<Vec<SF>> {
    let mut out = vec![];
    let mut cur = coeffs.to_vec();
    for r in ch.iter() {
        let mut nxt = vec![];
        for j in 0..(cur.len() + 1) / 2 {
            let e = cur[2 * j];
            let o = if 2 * j + 1 < cur.len() { cur[2 * j + 1] } else { SF::zero() };
            nxt.push(e + *r * o);
        }
        cur = nxt;
        out.push(cur.clone());
    }
    out
}

pub fn fold(n: usize, k: usize, buf: usize, seed: u64) -> Verdict {
    let coeffs: Vec<SF> = (0..n).map(|i| sym(&format!("f{}", i))).collect();
    let ch: Vec<SF> = (0..k).map(|i| sym(&format!("r{}", i))).collect();
    let mut rev = coeffs.clone();
    rev.reverse();
    let s = rev.as_slice();
    let folds = naive_folds(&coeffs, &ch);
    // stream = last fold, big-endian
    let stream = FoldedPolynomialStream::new(&s, ch.as_slice());
    let got: Vec<SF> = stream.iter().collect();
    let mut want = folds.last().cloned().unwrap_or(coeffs.clone());
    want.reverse();
    if got.len() != want.len() || stream.len() != want.len() {
        return Verdict::viol("fold-len", format!("stream yields {} items (len() = {}), naive fold has {}", got.len(), stream.len(), want.len()));
    }
    for (a, b) in got.iter().zip(want.iter()) {
        if a != b {
            return Verdict::viol("fold-stream", "FoldedPolynomialStream differs from the naive fold");
        }
    }
    // tree = all folds interleaved; per level, big-endian order
    let tree = FoldedPolynomialTree::new(&s, ch.as_slice());
    let mut per: Vec<Vec<SF>> = vec![vec![]; k + 1];
    for (lvl, c) in tree.iter() {
        if lvl == 0 || lvl > k {
            return Verdict::viol("fold-tree-level", format!("unexpected level {}", lvl));
        }
        per[lvl].push(c);
    }
    for lvl in 1..=k {
        let mut w = folds[lvl - 1].clone();
        w.reverse();
        if per[lvl].len() != w.len() {
            return Verdict::viol("fold-tree-len", format!("level {} has {} items, naive fold has {}", lvl, per[lvl].len(), w.len()));
        }
        for (a, b) in per[lvl].iter().zip(w.iter()) {
            if a != b {
                return Verdict::viol("fold-tree", format!("FoldedPolynomialTree level {} differs from the naive fold", lvl));
            }
        }
    }
    // commit_folding == time commitments of the explicitly folded polynomials
    if k >= 1 {
        let (ck, _) = keys(n, 3, seed);
        let cks = CommitterKeyStream::from(&ck);
        let tree = FoldedPolynomialTree::new(&s, ch.as_slice());
        let cs = cks.commit_folding(&tree, buf.max(k));
        if cs.len() != k {
            return Verdict::viol("commit-folding-len", format!("{} commitments for {} levels", cs.len(), k));
        }
        for lvl in 1..=k {
            if cs[lvl - 1] != ck.commit(&folds[lvl - 1]) {
                return Verdict::viol("commit-folding", format!("commit_folding level {} differs from the time commitment of the folded polynomial", lvl));
            }
        }
        // open_folding == the time prover's batched multi-point proof on the explicitly folded polynomials,
        // with a committer key that is strictly longer than the polynomial (n + 3 powers for n coefficients)
        let m = 2;
        let (ck, _) = keys(n + 2, m, seed);
        let cks = CommitterKeyStream::from(&ck);
        // concrete (seeded) points: the comparison is an identity in the coefficients, challenges and eta
        let mut prng = StdRng::seed_from_u64(seed + 4242);
        let pts: Vec<SF> = (0..m).map(|_| SF::rand(&mut prng)).collect();
        let eta = sym_nonzero("eta");
        let mut etas = vec![SF::from(1u64)];
        for _ in 1..k {
            let l = *etas.last().unwrap();
            etas.push(l * eta);
        }
        let tree = FoldedPolynomialTree::new(&s, ch.as_slice());
        let (rems, pf_s) = cks.open_folding(tree, &pts, &etas, buf.max(k));
        let refs: Vec<&Vec<SF>> = folds.iter().collect();
        let pf_t = ck.batch_open_multi_points(&refs[..], &pts, &eta);
        if pf_s != pf_t {
            return Verdict::viol("open-folding-proof", "open_folding's proof differs from the time prover's batched multi-point proof on the folded polynomials");
        }
        if rems.len() != k {
            return Verdict::viol("open-folding-len", format!("{} remainders for {} levels", rems.len(), k));
        }
        for lvl in 1..=k {
            for x in &pts {
                if eval_be(&rems[lvl - 1], *x) != horner(&folds[lvl - 1], *x) {
                    return Verdict::viol("open-folding-remainder", format!("open_folding remainder of level {} does not interpolate the folded polynomial's evaluations", lvl));
                }
            }
        }
    }
    Verdict::Hold
}

/// Keys derived from one another interoperate: the time key recovered from a streaming key
/// (`as_committer_key`), the verifier key derived from the streaming key, `batch_commit` on both sides,
/// `index_by`, and the additive structure of evaluation proofs.
pub fn key_interop(n: usize, pts: usize, seed: u64) -> Verdict {
    let delta = sym_nonzero("delta");
    let (ck, _) = keys(n + 2, pts, seed);
    let cks = CommitterKeyStream::from(&ck);
    let f: Vec<SF> = (0..n).map(|j| sym(&format!("f{}", j))).collect();
    let g: Vec<SF> = (0..n).map(|j| sym(&format!("g{}", j))).collect();
    let a = sym("alpha");
    // the streaming key turned back into a time key for n coefficients commits and opens like the original
    let ck2 = cks.as_committer_key(n);
    if ck2.commit(&f) != ck.commit(&f) {
        return Verdict::viol("as-committer-key", format!("as_committer_key({}) commits differently from the key the stream was made from", n));
    }
    let (ev, pf) = ck.open(&f, &a);
    let (ev2, pf2) = ck2.open(&f, &a);
    if ev != ev2 || pf != pf2 {
        return Verdict::viol("as-committer-key", "as_committer_key opens differently from the key the stream was made from");
    }
    // the verifier key derived from the streaming key decides like the one derived from the time key
    let vks = VerifierKey::from(&cks);
    let c = ck.commit(&f);
    if vks.verify(&c, &a, &ev, &pf).is_err() {
        return Verdict::viol("stream-verifier-key", "the verifier key derived from the streaming key rejects an honest proof");
    }
    if vks.verify(&c, &a, &(ev + delta), &pf).is_ok() {
        return Verdict::viol("stream-verifier-key", "the verifier key derived from the streaming key accepts f(alpha)+delta");
    }
    // batch_commit == element-wise commit, time and space
    let bc = ck.batch_commit(vec![f.clone(), g.clone()]);
    if bc.len() != 2 || bc[0] != ck.commit(&f) || bc[1] != ck.commit(&g) {
        return Verdict::viol("batch-commit", "time batch_commit differs from element-wise commit");
    }
    {
        let (mut rf, mut rg) = (f.clone(), g.clone());
        rf.reverse();
        rg.reverse();
        let (sf, sg) = (rf.as_slice(), rg.as_slice());
        type It<'a> = &'a dyn Iterable<Item = &'a SF, Iter = core::slice::Iter<'a, SF>>;
        let _ = |x: It| x.len();
        if cks.commit(&sf) != bc[0] || cks.commit(&sg) != bc[1] {
            return Verdict::viol("batch-commit", "space commitments differ from the time batch_commit");
        }
    }
    // a batch whose polynomials get shorter (and end with the empty one): each commitment is still that
    // polynomial's own commitment
    {
        let long: Vec<SF> = (0..n + 2).map(|j| sym(&format!("l{}", j))).collect();
        let batch = vec![long.clone(), f.clone(), f[..n / 2].to_vec(), vec![]];
        let bc = ck.batch_commit(batch.clone());
        for (i, p) in batch.iter().enumerate() {
            if bc.len() != batch.len() || bc[i] != ck.commit(p) {
                return Verdict::viol("batch-commit", format!("batch_commit over lengths {:?}: commitment {} is not the commitment of that polynomial alone", batch.iter().map(|p| p.len()).collect::<Vec<_>>(), i));
            }
        }
        // and a multi-point proof against those commitments verifies
        if pts >= 1 && n >= 1 {
            let xs: Vec<SF> = (0..pts).map(|j| SF::from(11u64 + 3 * j as u64)).collect();
            let eta = SF::from(7u64);
            let nonempty: Vec<&Vec<SF>> = batch.iter().filter(|p| !p.is_empty()).collect();
            let comms: Vec<_> = batch.iter().zip(bc.iter()).filter(|(p, _)| !p.is_empty()).map(|(_, c)| *c).collect();
            let proof = ck.batch_open_multi_points(&nonempty[..], &xs, &eta);
            let evals: Vec<Vec<SF>> = nonempty.iter().map(|p| xs.iter().map(|x| horner(p, *x)).collect()).collect();
            let vk = VerifierKey::from(&ck);
            if vk.verify_multi_points(&comms, &xs, &evals, &proof, &eta).is_err() {
                return Verdict::viol("rejected", "honest multi-point proof against the batch_commit commitments rejected");
            }
        }
    }
    // index_by: the key whose i-th element is the sum of the powers j with indices[j] = i commits a vector c to
    // what the original key commits the expanded vector (c[indices[j]])_j to
    let m = core::cmp::min(n, 3);
    let idx: Vec<usize> = (0..n).map(|j| (j * 2 + 1) % m).collect();
    let cv: Vec<SF> = (0..m).map(|j| sym(&format!("c{}", j))).collect();
    let expanded: Vec<SF> = idx.iter().map(|i| cv[*i]).collect();
    if ck.index_by(&idx).commit(&cv) != ck.commit(&expanded) {
        return Verdict::viol("index-by", "index_by key does not commit c to the commitment of (c[indices[j]])_j");
    }
    // evaluation proofs add: pi_f + pi_g is the proof for f + g at the same point; Sum agrees with +
    let (_, pg) = ck.open(&g, &a);
    let fg: Vec<SF> = f.iter().zip(g.iter()).map(|(x, y)| *x + *y).collect();
    let (_, pfg) = ck.open(&fg, &a);
    if pf.clone() + pg.clone() != pfg {
        return Verdict::viol("proof-add", "the sum of two evaluation proofs at one point is not the proof of the sum");
    }
    let summed: ark_poly_commit::streaming_kzg::EvaluationProof<ToyPairing> = vec![pf.clone(), pg.clone()].into_iter().sum();
    if summed != pfg {
        return Verdict::viol("proof-add", "Sum over evaluation proofs differs from +");
    }
    let empty: ark_poly_commit::streaming_kzg::EvaluationProof<ToyPairing> = Vec::new().into_iter().sum();
    if empty.clone() + pf.clone() != pf {
        return Verdict::viol("proof-add", "the empty sum of evaluation proofs is not the identity");
    }
    use ark_serialize::CanonicalSerialize;
    if c.size_in_bytes() != crate::engine::grp::TA::<1>(SF::zero()).serialized_size(ark_serialize::Compress::Yes) {
        return Verdict::viol("commitment-size", "Commitment::size_in_bytes is not the compressed size of a G1 element");
    }
    Verdict::Hold
}
