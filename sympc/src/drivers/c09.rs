//! C09: setup and trim produce well-formed, mutually consistent keys.
use super::common::*;
use crate::engine::explore::{with_sym_rng, Verdict};
use crate::engine::grp::{ToyPairing, TA};
use crate::engine::sf::SF;
use crate::schemes::*;
use ark_ec::pairing::Pairing;
use ark_ff::Zero;
use ark_poly::DenseUVPolynomial;
use ark_poly_commit::kzg10::KZG10;
use ark_poly_commit::streaming_kzg::CommitterKey as SCk;
use ark_poly_commit::{LabeledPolynomial, PCCommitterKey, PCUniversalParams, PCVerifierKey, PolynomialCommitment};
use ark_std::rand::{rngs::StdRng, SeedableRng};

fn e(a: TA<1>, b: TA<2>) -> ark_ec::pairing::PairingOutput<ToyPairing> {
    ToyPairing::pairing(a, b)
}

/// KZG10::setup with a symbolic trapdoor and symbolic generators: every published element is the
/// stated power (consecutive-power pairing identities), sizes as documented.
pub fn kzg_srs(max_degree: usize, seed: u64) -> Verdict {
    // environment assumption: the trapdoor and the generators drawn by setup are non-zero
    crate::engine::sf::RNG_NONZERO.with(|c| c.set(true));
    let rng = &mut StdRng::seed_from_u64(seed);
    let pp = match with_sym_rng(true, || KZG10::<ToyPairing, UP>::setup(max_degree, true, rng)) {
        Ok(p) => p,
        Err(err) => return Verdict::viol("setup-err", format!("{:?}", err)),
    };
    if pp.powers_of_g.len() != max_degree + 1 {
        return Verdict::viol("srs-size", format!("{} G1 powers for max_degree {}", pp.powers_of_g.len(), max_degree));
    }
    if pp.powers_of_gamma_g.len() != max_degree + 2 || (0..max_degree + 2).any(|i| !pp.powers_of_gamma_g.contains_key(&i)) {
        return Verdict::viol("srs-size", "gamma powers are not indexed 0..=max_degree+1");
    }
    if pp.neg_powers_of_h.len() != max_degree + 1 || (0..=max_degree).any(|i| !pp.neg_powers_of_h.contains_key(&i)) {
        return Verdict::viol("srs-size", "negative G2 powers are not indexed 0..=max_degree");
    }
    if e(pp.powers_of_g[0], pp.beta_h) != e(pp.powers_of_g[1], pp.h) {
        return Verdict::viol("srs-beta-h", "beta_h is not beta*h for the beta of the G1 powers");
    }
    for i in 1..pp.powers_of_g.len() {
        if e(pp.powers_of_g[i], pp.h) != e(pp.powers_of_g[i - 1], pp.beta_h) {
            return Verdict::viol("srs-g-power", format!("powers_of_g[{}] is not beta * powers_of_g[{}]", i, i - 1));
        }
    }
    for i in 1..pp.powers_of_gamma_g.len() {
        if e(pp.powers_of_gamma_g[&i], pp.h) != e(pp.powers_of_gamma_g[&(i - 1)], pp.beta_h) {
            return Verdict::viol("srs-gamma-power", format!("powers_of_gamma_g[{}] is not beta * the previous one", i));
        }
    }
    if pp.neg_powers_of_h[&0] != pp.h {
        return Verdict::viol("srs-neg-power", "neg_powers_of_h[0] is not h");
    }
    for i in 1..pp.neg_powers_of_h.len() {
        if e(pp.powers_of_g[1], pp.neg_powers_of_h[&i]) != e(pp.powers_of_g[0], pp.neg_powers_of_h[&(i - 1)]) {
            return Verdict::viol("srs-neg-power", format!("neg_powers_of_h[{}] is not beta^-1 * the previous one", i));
        }
    }
    if pp.prepared_h != pp.h || pp.prepared_beta_h != pp.beta_h {
        return Verdict::viol("srs-prepared", "prepared G2 elements differ from their sources");
    }
    Verdict::Hold
}

/// streaming KZG setup with symbolic trapdoor
pub fn streaming_srs(max_degree: usize, pts: usize, seed: u64) -> Verdict {
    // environment assumption: the trapdoor and the generators drawn by setup are non-zero
    crate::engine::sf::RNG_NONZERO.with(|c| c.set(true));
    let rng = &mut StdRng::seed_from_u64(seed);
    let ck = with_sym_rng(true, || SCk::<ToyPairing>::new(max_degree, pts, rng));
    // the key's fields are crate-private: the G1 powers are read as commitments to unit vectors and
    // must form a geometric progression in the exponent: P[i]^2 == P[i-1] * P[i+1]
    let mut g1: Vec<SF> = vec![];
    // the evaluation proof of x^(i+1) at 0 is the commitment to x^i, i.e. powers_of_g[i]
    for i in 0..max_degree {
        let mut unit = vec![SF::zero(); max_degree + 1];
        unit[i + 1] = SF::from(1u8);
        g1.push(ck.open(&unit, &SF::zero()).1 .0 .0);
    }
    for i in 1..max_degree.saturating_sub(1) {
        if g1[i] * g1[i] != g1[i - 1] * g1[i + 1] {
            return Verdict::viol("srs-g-power", format!("powers_of_g[{}..{}] are not consecutive powers of one trapdoor", i - 1, i + 1));
        }
    }
    // the G2 side is exercised through verification of an honest opening for every trapdoor value
    let vk = ark_poly_commit::streaming_kzg::VerifierKey::from(&ck);
    let f: Vec<SF> = (0..=max_degree).map(|i| SF::from((i as u64) * 7 + 3)).collect();
    let a = SF::from(11u8);
    let (ev, pf) = ck.open(&f, &a);
    if vk.verify(&ck.commit(&f), &a, &ev, &pf).is_err() {
        return Verdict::viol("srs-g2-power", "an honest opening does not verify under the derived verifier key for some trapdoor");
    }
    if ck.max_eval_points() != pts.min(max_degree) {
        return Verdict::viol("srs-report", "max_eval_points() does not report the requested bound");
    }
    Verdict::Hold
}

#[derive(Clone, Debug)]
pub struct TrimReq {
    pub max_degree: usize,
    pub supported: usize,
    pub hiding: usize,
    pub bounds: Option<Vec<usize>>,
}

impl TrimReq {
    /// (must be accepted, must be refused): requests within supported_degree must work, requests
    /// beyond the universal parameters must fail, anything in between is the scheme's choice
    pub fn classify(&self) -> (bool, bool) {
        let b = self.bounds.clone().unwrap_or_default();
        let must_accept = self.supported >= 1 && self.supported <= self.max_degree && self.hiding <= self.max_degree.min(self.supported) && b.iter().all(|d| *d >= 1 && *d <= self.supported);
        let must_refuse = self.supported > self.max_degree || self.hiding > self.max_degree || b.iter().any(|d| *d > self.max_degree);
        (must_accept, must_refuse)
    }
}

fn sorted_dedup(b: &Option<Vec<usize>>) -> Option<Vec<usize>> {
    b.as_ref().map(|v| {
        let mut v = v.clone();
        v.sort();
        v.dedup();
        v
    })
}

/// Marlin trim: faithful sub-key; symbolic SRS so that a wrong index is a wrong term
pub fn marlin_trim(r: &TrimReq, seed: u64) -> Verdict {
    // environment assumption: the trapdoor and the generators drawn by setup are non-zero
    crate::engine::sf::RNG_NONZERO.with(|c| c.set(true));
    let rng = &mut StdRng::seed_from_u64(seed);
    let pp = match with_sym_rng(true, || MarlinPC::setup(r.max_degree, None, rng)) {
        Ok(p) => p,
        Err(err) => return Verdict::viol("setup-err", format!("{:?}", err)),
    };
    let (must_accept, must_refuse) = r.classify();
    let res = catch(|| MarlinPC::trim(&pp, r.supported, r.hiding, r.bounds.as_deref()));
    // the decision must not depend on the order in which the enforced bounds are listed
    if let Some(b) = r.bounds.as_ref().filter(|b| b.len() >= 2) {
        let accepted = matches!(res, Ok(Ok(_)));
        let mut asc = b.clone();
        asc.sort();
        let mut desc = asc.clone();
        desc.reverse();
        for perm in [asc, desc] {
            let other = matches!(catch(|| MarlinPC::trim(&pp, r.supported, r.hiding, Some(&perm))), Ok(Ok(_)));
            if other != accepted {
                return Verdict::viol("trim-order-dependent", format!("trim {} {:?} but {} the same bounds listed as {:?}", if accepted { "accepted" } else { "refused" }, r, if other { "accepted" } else { "refused" }, perm));
            }
        }
    }
    let (ck, vk) = match res {
        Ok(Ok(k)) => {
            if must_refuse {
                return Verdict::viol("trim-accepted-out-of-range", format!("trim accepted {:?}", r));
            }
            k
        }
        Ok(Err(_)) | Err(_) => {
            return if must_accept { Verdict::viol("trim-refused-in-range", format!("trim refused {:?}", r)) } else { Verdict::Hold };
        }
    };
    let maxd = r.max_degree;
    if ck.powers.len() != r.supported + 1 || (0..=r.supported).any(|i| ck.powers[i] != pp.powers_of_g[i]) {
        return Verdict::viol("trim-powers", "ck.powers is not the prefix of the parameters' powers");
    }
    if ck.powers_of_gamma_g.len() != r.hiding + 2 || (0..r.hiding + 2).any(|i| ck.powers_of_gamma_g[i] != pp.powers_of_gamma_g[&i]) {
        return Verdict::viol("trim-gamma", "ck.powers_of_gamma_g is not gamma powers 0..=hiding+1");
    }
    if vk.vk.g != pp.powers_of_g[0] || vk.vk.gamma_g != pp.powers_of_gamma_g[&0] || vk.vk.h != pp.h || vk.vk.beta_h != pp.beta_h {
        return Verdict::viol("trim-vk", "verifier key generators differ from the parameters");
    }
    if ck.max_degree() != maxd || ck.supported_degree() != r.supported || vk.max_degree() != maxd || vk.supported_degree() != r.supported || pp.max_degree() != maxd {
        return Verdict::viol("trim-report", "max_degree()/supported_degree() reports are wrong");
    }
    let want = sorted_dedup(&r.bounds).filter(|b| !b.is_empty());
    match (&want, &ck.enforced_degree_bounds, &ck.shifted_powers, &vk.degree_bounds_and_shift_powers) {
        (None, b, None, None) if b.as_ref().map_or(true, |v| v.is_empty()) => {}
        (Some(wb), Some(eb), Some(sp), Some(dsp)) => {
            if wb != eb {
                return Verdict::viol("trim-bounds", "enforced bounds are not the sorted, de-duplicated request");
            }
            let lowest = maxd - wb.last().unwrap();
            if sp.len() != maxd - lowest + 1 || (0..sp.len()).any(|i| sp[i] != pp.powers_of_g[lowest + i]) {
                return Verdict::viol("trim-shifted-powers", "shifted powers are not the parameters' powers from max_degree - largest bound");
            }
            if dsp.len() != wb.len() || dsp.iter().zip(wb.iter()).any(|((d, g), w)| d != w || *g != pp.powers_of_g[maxd - *d]) {
                return Verdict::viol("trim-shift-elements", "verifier shift elements are not beta^(max_degree-d) G for the enforced bounds in order");
            }
            for d in wb {
                if vk.get_shift_power(*d) != Some(pp.powers_of_g[maxd - *d]) {
                    return Verdict::viol("trim-shift-lookup", "get_shift_power returns the wrong element");
                }
            }
        }
        _ => return Verdict::viol("trim-bounds-shape", "degree-bound key material inconsistent with the request"),
    }
    // a polynomial of degree == supported commits, supported+1 does not
    let okp = LabeledPolynomial::new("p".into(), UP::from_coefficients_vec(vec![SF::from(1u8); r.supported + 1]), None, None);
    if MarlinPC::commit(&ck, [&okp], None).is_err() {
        return Verdict::viol("commit-refused-at-supported", "commit refused a polynomial of degree == supported_degree");
    }
    let bad = LabeledPolynomial::new("p".into(), UP::from_coefficients_vec(vec![SF::from(1u8); r.supported + 2]), None, None);
    if let Ok(Ok(_)) = catch(|| MarlinPC::commit(&ck, [&bad], None)) {
        return Verdict::viol("commit-accepted-above-supported", "commit accepted a polynomial of degree supported_degree + 1");
    }
    Verdict::Hold
}

pub fn sonic_trim(r: &TrimReq, seed: u64) -> Verdict {
    // environment assumption: the trapdoor and the generators drawn by setup are non-zero
    crate::engine::sf::RNG_NONZERO.with(|c| c.set(true));
    let rng = &mut StdRng::seed_from_u64(seed);
    let pp = match with_sym_rng(true, || SonicPC::setup(r.max_degree, None, rng)) {
        Ok(p) => p,
        Err(err) => return Verdict::viol("setup-err", format!("{:?}", err)),
    };
    let (must_accept, must_refuse) = r.classify();
    let res = catch(|| SonicPC::trim(&pp, r.supported, r.hiding, r.bounds.as_deref()));
    // the decision must not depend on the order in which the enforced bounds are listed
    if let Some(b) = r.bounds.as_ref().filter(|b| b.len() >= 2) {
        let accepted = matches!(res, Ok(Ok(_)));
        let mut asc = b.clone();
        asc.sort();
        let mut desc = asc.clone();
        desc.reverse();
        for perm in [asc, desc] {
            let other = matches!(catch(|| SonicPC::trim(&pp, r.supported, r.hiding, Some(&perm))), Ok(Ok(_)));
            if other != accepted {
                return Verdict::viol("trim-order-dependent", format!("trim {} {:?} but {} the same bounds listed as {:?}", if accepted { "accepted" } else { "refused" }, r, if other { "accepted" } else { "refused" }, perm));
            }
        }
    }
    let (ck, vk) = match res {
        Ok(Ok(k)) => {
            if must_refuse {
                return Verdict::viol("trim-accepted-out-of-range", format!("trim accepted {:?}", r));
            }
            k
        }
        Ok(Err(_)) | Err(_) => {
            return if must_accept { Verdict::viol("trim-refused-in-range", format!("trim refused {:?}", r)) } else { Verdict::Hold };
        }
    };
    let maxd = r.max_degree;
    if ck.powers_of_g.len() != r.supported + 1 || (0..=r.supported).any(|i| ck.powers_of_g[i] != pp.powers_of_g[i]) {
        return Verdict::viol("trim-powers", "ck.powers_of_g is not the prefix of the parameters' powers");
    }
    if ck.powers_of_gamma_g.len() != r.hiding + 2 || (0..r.hiding + 2).any(|i| ck.powers_of_gamma_g[i] != pp.powers_of_gamma_g[&i]) {
        return Verdict::viol("trim-gamma", "ck.powers_of_gamma_g is not gamma powers 0..=hiding+1");
    }
    if vk.g != pp.powers_of_g[0] || vk.gamma_g != pp.powers_of_gamma_g[&0] || vk.h != pp.h || vk.beta_h != pp.beta_h {
        return Verdict::viol("trim-vk", "verifier key generators differ from the parameters");
    }
    if ck.max_degree() != maxd || ck.supported_degree() != r.supported || vk.max_degree() != maxd || vk.supported_degree() != r.supported {
        return Verdict::viol("trim-report", "max_degree()/supported_degree() reports are wrong");
    }
    let want = sorted_dedup(&r.bounds).filter(|b| !b.is_empty());
    match (&want, &ck.shifted_powers_of_g, &vk.degree_bounds_and_neg_powers_of_h) {
        (None, None, None) => {}
        (Some(wb), Some(sp), Some(dn)) => {
            if ck.enforced_degree_bounds.as_ref() != Some(wb) {
                return Verdict::viol("trim-bounds", "enforced bounds are not the sorted, de-duplicated request");
            }
            let lowest = maxd - wb.last().unwrap();
            if (0..sp.len()).any(|i| sp[i] != pp.powers_of_g[lowest + i]) || sp.len() != maxd - lowest + 1 {
                return Verdict::viol("trim-shifted-powers", "shifted powers are not the parameters' powers from max_degree - largest bound");
            }
            if dn.len() != wb.len() || dn.iter().zip(wb.iter()).any(|((d, hh), w)| d != w || *hh != pp.neg_powers_of_h[&(maxd - *d)]) {
                return Verdict::viol("trim-shift-elements", "verifier elements are not beta^-(max_degree-d) H for the enforced bounds in order");
            }
        }
        _ => return Verdict::viol("trim-bounds-shape", "degree-bound key material inconsistent with the request"),
    }
    Verdict::Hold
}

/// transparent setups: generators distinct, non-identity, reproducible; IPA trim is a prefix
/// the k-th transparent generator as the schemes document it: the first of H(name || k), H(name || k || 0),
/// H(name || k || 1), ... (k, j as 8-byte little-endian) that maps to a group element
fn derive_generator(name: &[u8], k: u64) -> (SF, usize) {
    use blake2::{Blake2s256, Digest};
    let h = Blake2s256::digest([name, &k.to_le_bytes()].concat().as_slice());
    if let Some(g) = <crate::engine::grp::TA<1> as ark_ec::AffineRepr>::from_random_bytes(&h) {
        return (g.0, 0);
    }
    let mut j = 0u64;
    loop {
        let mut b = name.to_vec();
        b.extend(k.to_le_bytes());
        b.extend(j.to_le_bytes());
        let h = Blake2s256::digest(b.as_slice());
        if let Some(g) = <crate::engine::grp::TA<1> as ark_ec::AffineRepr>::from_random_bytes(&h) {
            return (g.0, j as usize + 1);
        }
        j += 1;
    }
}

pub fn transparent(seed: u64) -> Verdict {
    let mut rng = StdRng::seed_from_u64(seed);
    // derivation from the protocol seed, on sizes where the hash-to-group retry loop is taken
    let mut retries = 0;
    for maxd in [1usize, 6, 15, 31] {
        let a = IpaPC::setup(maxd, None, &mut rng).unwrap();
        let n = (maxd + 1).next_power_of_two();
        let mut all: Vec<SF> = a.comm_key.iter().map(|g| g.0).collect();
        all.push(a.s.0);
        all.push(a.h.0);
        if all.len() != n + 2 {
            return Verdict::viol("ipa-size", format!("max_degree {}: {} generators besides h and s", maxd, a.comm_key.len()));
        }
        for (k, g) in all.iter().enumerate() {
            let (want, r) = derive_generator(IpaPC::PROTOCOL_NAME, k as u64);
            retries += r;
            if g.v != want.v {
                return Verdict::viol("ipa-generator-derivation", format!("max_degree {}: generator {} (comm_key, then s, then h) is not the hash-derived element for index {} ({} retries)", maxd, k, k, r));
            }
        }
    }
    for nv in [2usize, 4, 6, 8] {
        let a = HyraxPCS::setup(1, Some(nv), &mut rng).unwrap();
        let mut all: Vec<SF> = a.com_key.iter().map(|g| g.0).collect();
        all.push(a.h.0);
        if all.len() != (1 << (nv / 2)) + 1 {
            return Verdict::viol("hyrax-size", "com_key length is not 2^(n/2)");
        }
        for (k, g) in all.iter().enumerate() {
            let (want, r) = derive_generator(ark_poly_commit::hyrax::PROTOCOL_NAME, k as u64);
            retries += r;
            if g.v != want.v {
                return Verdict::viol("hyrax-generator-derivation", format!("{} variables: generator {} (com_key, then h) is not the hash-derived element for index {} ({} retries)", nv, k, k, r));
            }
            if g.v.is_zero() || all[..k].iter().any(|o| o.v == g.v) {
                return Verdict::viol("hyrax-generators-coincide", format!("{} variables: generator {} is the identity or repeats an earlier one", nv, k));
            }
        }
    }
    if retries == 0 {
        return Verdict::Discard("driver: no index needed a second hash; the retry loops were not exercised".into());
    }
    for maxd in [1usize, 3, 6] {
        let a = IpaPC::setup(maxd, None, &mut rng).unwrap();
        let b = IpaPC::setup(maxd, None, &mut StdRng::seed_from_u64(seed + 9)).unwrap();
        let mut all: Vec<SF> = a.comm_key.iter().map(|g| g.0).collect();
        all.push(a.h.0);
        all.push(a.s.0);
        let allb: Vec<SF> = terms_of(&b);
        if terms_of(&a).iter().map(|x| x.v).collect::<Vec<_>>() != allb.iter().map(|x| x.v).collect::<Vec<_>>() {
            return Verdict::viol("ipa-nondeterministic", "two IPA setups give different generators");
        }
        if a.comm_key.len() != (maxd + 1).next_power_of_two() {
            return Verdict::viol("ipa-size", "comm_key length is not the next power of two of max_degree+1");
        }
        for i in 0..all.len() {
            if all[i].v.is_zero() {
                return Verdict::viol("ipa-identity-generator", format!("generator {} is the identity", i));
            }
            for j in 0..i {
                if all[i].v == all[j].v {
                    return Verdict::viol("ipa-generators-coincide", format!("generators {} and {} coincide", j, i));
                }
            }
        }
        for sup in 1..=maxd {
            let (ck, vk) = IpaPC::trim(&a, sup, 0, None).unwrap();
            let n = (sup + 1).next_power_of_two();
            if ck.comm_key.len() != n || vk.comm_key.len() != n || (0..n).any(|i| ck.comm_key[i] != a.comm_key[i] || vk.comm_key[i] != a.comm_key[i]) || ck.h != a.h || ck.s != a.s || vk.h != a.h || vk.s != a.s {
                return Verdict::viol("ipa-trim", "IPA trim is not the prefix of the parameters");
            }
            if PCCommitterKey::supported_degree(&ck) != n - 1 || PCVerifierKey::supported_degree(&vk) != n - 1 || PCCommitterKey::max_degree(&ck) != a.comm_key.len() - 1 {
                return Verdict::viol("ipa-trim-report", "IPA degree reports are wrong");
            }
        }
        if IpaPC::trim(&a, a.comm_key.len(), 0, None).is_ok() {
            return Verdict::viol("ipa-trim-accepted-out-of-range", "IPA trim accepted supported_degree > max_degree");
        }
    }
    for nv in [2usize, 4] {
        let a = HyraxPCS::setup(1, Some(nv), &mut rng).unwrap();
        let b = HyraxPCS::setup(1, Some(nv), &mut StdRng::seed_from_u64(seed + 5)).unwrap();
        if terms_of(&a).iter().map(|x| x.v).collect::<Vec<_>>() != terms_of(&b).iter().map(|x| x.v).collect::<Vec<_>>() {
            return Verdict::viol("hyrax-nondeterministic", "two Hyrax setups give different generators");
        }
        let mut all: Vec<SF> = a.com_key.iter().map(|g| g.0).collect();
        all.push(a.h.0);
        if a.com_key.len() != 1 << (nv / 2) {
            return Verdict::viol("hyrax-size", "com_key length is not 2^(n/2)");
        }
        for i in 0..all.len() {
            if all[i].v.is_zero() {
                return Verdict::viol("hyrax-identity-generator", format!("generator {} is the identity", i));
            }
            for j in 0..i {
                if all[i].v == all[j].v {
                    return Verdict::viol("hyrax-generators-coincide", format!("generators {} and {} coincide", j, i));
                }
            }
        }
    }
    Verdict::Hold
}

/// prepared tables are successive doublings of their source
pub fn prepared(seed: u64) -> Verdict {
    use ark_poly_commit::kzg10::{Commitment, PreparedCommitment, PreparedVerifierKey};
    // environment assumption: the trapdoor and the generators drawn by setup are non-zero
    crate::engine::sf::RNG_NONZERO.with(|c| c.set(true));
    let rng = &mut StdRng::seed_from_u64(seed);
    let pp = match with_sym_rng(true, || MarlinPC::setup(3, None, rng)) {
        Ok(p) => p,
        Err(err) => return Verdict::viol("setup-err", format!("{:?}", err)),
    };
    let (_, vk) = MarlinPC::trim(&pp, 3, 0, Some(&[2, 1, 3, 1])).unwrap();
    let pvk = PreparedVerifierKey::prepare(&vk.vk);
    let mut cur = vk.vk.g.0;
    if pvk.prepared_g.len() != 255 {
        return Verdict::viol("prepared-size", format!("{} doublings for a 255-bit scalar field", pvk.prepared_g.len()));
    }
    for (i, g) in pvk.prepared_g.iter().enumerate() {
        if i < 12 || i > 250 {
            if g.0 != cur {
                return Verdict::viol("prepared-g", format!("prepared_g[{}] is not 2^{} * g", i, i));
            }
        }
        cur = cur + cur;
    }
    let c = Commitment::<ToyPairing>(pp.powers_of_g[2]);
    let pc = PreparedCommitment::prepare(&c);
    let mut cur = c.0 .0;
    for (i, g) in pc.0.iter().enumerate() {
        if i < 12 || i > 250 {
            if g.0 != cur {
                return Verdict::viol("prepared-comm", format!("prepared commitment element {} is not 2^{} * C", i, i));
            }
        }
        cur = cur + cur;
    }
    // the trait-level prepared commitment of the Sonic/KZG10 commitment type: doublings for (at least) the
    // 128 bits of an opening challenge
    {
        use ark_poly_commit::PCPreparedCommitment;
        let tp = <ark_poly_commit::sonic_pc::PreparedCommitment<ToyPairing> as PCPreparedCommitment<Commitment<ToyPairing>>>::prepare(&c);
        if tp.0.len() < 128 {
            return Verdict::viol("prepared-comm", format!("trait-level prepared commitment has {} doublings, fewer than a 128-bit challenge needs", tp.0.len()));
        }
        let mut cur = c.0 .0;
        for (i, g) in tp.0.iter().enumerate() {
            if (i < 12 || i + 4 > tp.0.len()) && g.0 != cur {
                return Verdict::viol("prepared-comm", format!("trait-level prepared commitment element {} is not 2^{} * C", i, i));
            }
            cur = cur + cur;
        }
    }
    use ark_poly_commit::PCPreparedVerifierKey;
    let mpvk = ark_poly_commit::marlin_pc::PreparedVerifierKey::prepare(&vk);
    if let (Some(p), Some(src)) = (&mpvk.prepared_degree_bounds_and_shift_powers, &vk.degree_bounds_and_shift_powers) {
        if p.len() != src.len() {
            return Verdict::viol("prepared-shift", "prepared shift tables and enforced bounds differ in number");
        }
        for ((d, tab), (d2, g)) in p.iter().zip(src.iter()) {
            let mut cur = g.0;
            if tab.len() != 255 {
                return Verdict::viol("prepared-shift", format!("prepared shift table for bound {} has {} entries instead of 255", d, tab.len()));
            }
            if d != d2 {
                return Verdict::viol("prepared-shift", "prepared shift table is keyed by another bound");
            }
            for (i, t) in tab.iter().enumerate() {
                if i < 12 && t.0 != cur {
                    return Verdict::viol("prepared-shift", format!("prepared shift power element {} is not 2^{} * source", i, i));
                }
                cur = cur + cur;
            }
        }
    } else {
        return Verdict::viol("prepared-shift-missing", "prepared verifier key lacks the shift tables");
    }
    Verdict::Hold
}
