//! C11: prover/verifier transcripts stay in lock-step; proofs are bound to the transcript.
use super::common::*;
use crate::engine::explore::{assume_ne, sym, with_sym_rng, Verdict};
use crate::engine::sf::SF;
use crate::engine::sponge::RoSponge;
use crate::schemes::Sch;
use ark_crypto_primitives::sponge::CryptographicSponge;
use ark_ff::One;
use ark_poly_commit::{Evaluations, LCTerm, LabeledCommitment, LinearCombination, PolynomialCommitment, QuerySet};
use ark_std::rand::{rngs::StdRng, SeedableRng};

#[derive(Clone, Copy, Debug, PartialEq)]
pub enum Op {
    /// open all polynomials at point `k`
    Open(usize),
    /// batch_open over the whole query set
    Batch,
    /// open_combinations of lc = p0 + c*p1 (+ k) at point 0
    Comb,
}

fn same_state(p: &RoSponge, v: &RoSponge, after: &str) -> Result<(), Verdict> {
    let (sp, ap, qp) = p.state();
    let (sv, av, qv) = v.state();
    if sp != sv || qp != qv || ap.len() != av.len() {
        return Err(Verdict::viol("sponge-state-differs", format!("{}: prover and verifier sponges absorbed/squeezed different shapes ({} vs {} squeezes, {} vs {} absorbed elements)", after, qp, qv, ap.len(), av.len())));
    }
    for (x, y) in ap.iter().zip(av.iter()) {
        if (SF { v: x.1, t: x.0 }) != (SF { v: y.1, t: y.0 }) {
            return Err(Verdict::viol("sponge-state-differs", format!("{}: prover and verifier absorbed different values", after)));
        }
    }
    let a: SF = p.clone().squeeze_field_elements(1)[0];
    let b: SF = v.clone().squeeze_field_elements(1)[0];
    if a != b {
        return Err(Verdict::viol("sponge-next-squeeze-differs", format!("{}: next squeeze differs", after)));
    }
    Ok(())
}

pub fn lockstep<S: Sch>(cfg: &Cfg, history: &[Op]) -> Verdict {
    let mut w = match build::<S>(cfg) {
        Ok(w) => w,
        Err(v) => return v,
    };
    let sp0 = sponge(cfg, 1);
    let (mut sp_p, mut sp_v) = (sp0.clone(), sp0.clone());
    for (n, op) in history.iter().enumerate() {
        let tag = format!("op {} ({:?})", n, op);
        match op {
            Op::Open(k) => {
                let mut idx = w.at_point(*k);
                // both flags: the same descending-label order on the prover's and on the verifier's side
                if cfg.rev_prover && cfg.rev_verifier {
                    idx.reverse();
                }
                let proof = match w.open(&idx, *k, &mut sp_p) {
                    Ok(p) => p,
                    Err(e) => return Verdict::viol(&format!("open-err:{}", e), tag),
                };
                let pt = w.points[*k].1.clone();
                let vals: Vec<SF> = idx.iter().map(|i| w.lps[*i].evaluate(&pt)).collect();
                match w.check(&idx, &pt, vals, &proof, &mut sp_v) {
                    Ok(true) => {}
                    r => return Verdict::viol("rejected", format!("{}: {:?}", tag, r)),
                }
            }
            Op::Batch => {
                let qs = w.query_set();
                let ev = w.evaluations();
                let proof = match w.batch_open(&qs, &mut sp_p) {
                    Ok(p) => p,
                    Err(e) => return Verdict::viol(&format!("batch-open-err:{}", e), tag),
                };
                match w.batch_check(&qs, &ev, &proof, &mut sp_v, cfg.seed + 100 + n as u64) {
                    Ok(true) => {}
                    r => return Verdict::viol("rejected", format!("{}: {:?}", tag, r)),
                }
            }
            Op::Comb => {
                let c = sym("lcc");
                let mut lc = LinearCombination::empty("lc");
                lc.push((SF::one(), LCTerm::PolyLabel("p0".into())));
                if w.lps.len() > 1 {
                    lc.push((c, LCTerm::PolyLabel("p1".into())));
                }
                lc.push((sym("lck"), LCTerm::One));
                let z = w.points[0].1.clone();
                let mut qs: QuerySet<PointOf<S>> = QuerySet::new();
                qs.insert(("lc".into(), (w.points[0].0.clone(), z.clone())));
                let mut val = w.lps[0].evaluate(&z) + lc.terms.last().unwrap().0;
                if w.lps.len() > 1 {
                    val += c * w.lps[1].evaluate(&z);
                }
                let mut ev: Evaluations<PointOf<S>, SF> = Evaluations::new();
                ev.insert(("lc".into(), z.clone()), val);
                let sym_rng = cfg.sym_rng;
                let proof = {
                    let rng = &mut w.rng;
                    match with_sym_rng(sym_rng, || PCOf::<S>::open_combinations(&w.ck, [&lc], &w.lps, &w.comms, &qs, &mut sp_p, &w.states, Some(rng))) {
                        Ok(p) => p,
                        Err(e) => return Verdict::viol(&format!("open-combinations-err:{}", errname(&e)), tag),
                    }
                };
                let comms: Vec<&LabeledCommitment<CommOf<S>>> = w.comms.iter().collect();
                match PCOf::<S>::check_combinations(&w.vk, [&lc], comms, &qs, &ev, &proof, &mut sp_v, &mut StdRng::seed_from_u64(cfg.seed + 200)) {
                    Ok(true) => {}
                    r => return Verdict::viol("rejected", format!("{}: {:?}", tag, r.map_err(|e| errname(&e)))),
                }
            }
        }
        if let Err(v) = same_state(&sp_p, &sp_v, &tag) {
            return v;
        }
    }
    Verdict::Hold
}

/// the verifier's sponge was initialised with different prior data: not accepted
pub fn prestate<S: Sch>(cfg: &Cfg, negate: bool) -> Verdict {
    prestate_mode::<S>(cfg, negate, false)
}

/// `concrete`: the two pre-states are two different concrete absorbs. The harness's byte-squeezing tape (the
/// column positions of the linear-code schemes) is a function of the concrete transcript skeleton only, so a
/// proof whose only transcript-dependent part is the set of opened positions is bound to a *concrete*
/// pre-state in this model, not to a symbolic one.
pub fn prestate_mode<S: Sch>(cfg: &Cfg, negate: bool, concrete: bool) -> Verdict {
    let mut w = match catch(|| build::<S>(cfg)) {
        Ok(Ok(w)) => w,
        _ => return Verdict::Discard("honest phase failed".into()),
    };
    let (t1, t2) = if concrete { (SF::from(1u64), SF::from(2u64)) } else { (sym("tr"), sym("tr2")) };
    if !concrete && !assume_ne(t1, t2, "same pre-state") {
        return Verdict::Hold;
    }
    let mut sp_p = RoSponge::new(&1);
    let mut sp_v = RoSponge::new(&1);
    if concrete {
        // raw bytes: they are part of the transcript skeleton the byte-squeezing tape depends on
        sp_p.absorb(&b"pre-state A".to_vec());
        sp_v.absorb(&b"pre-state B".to_vec());
    } else {
        sp_p.absorb(&t1);
        sp_v.absorb(&t2);
    }
    let idx = w.at_point(0);
    let proof = match catch(|| w.open(&idx, 0, &mut sp_p)) {
        Ok(Ok(p)) => p,
        _ => return Verdict::Discard("honest phase failed".into()),
    };
    let pt = w.points[0].1.clone();
    let vals: Vec<SF> = idx.iter().map(|i| w.lps[*i].evaluate(&pt)).collect();
    let r = catch(|| w.check(&idx, &pt, vals, &proof, &mut sp_v));
    match (r, negate) {
        (Ok(Ok(true)), false) => Verdict::viol("accepted-under-other-transcript", "a proof was accepted under a sponge with different prior absorbs"),
        (Ok(Ok(true)), true) => Verdict::Hold,
        (_, false) => Verdict::Hold,
        (_, true) => Verdict::viol("twin", "twin"),
    }
}

/// two openings in sequence; the verifier checks them in the other order: not both accepted
pub fn swapped<S: Sch>(cfg: &Cfg) -> Verdict {
    let mut w = match catch(|| build::<S>(cfg)) {
        Ok(Ok(w)) => w,
        _ => return Verdict::Discard("honest phase failed".into()),
    };
    let sp0 = sponge(cfg, 1);
    let (mut sp_p, mut sp_v) = (sp0.clone(), sp0.clone());
    let mut proofs = vec![];
    for k in 0..2 {
        let idx = w.at_point(k);
        match catch(|| w.open(&idx, k, &mut sp_p)) {
            Ok(Ok(p)) => proofs.push(p),
            _ => return Verdict::Discard("honest phase failed".into()),
        }
    }
    let mut all = true;
    for k in [1usize, 0] {
        let idx = w.at_point(k);
        let pt = w.points[k].1.clone();
        let vals: Vec<SF> = idx.iter().map(|i| w.lps[*i].evaluate(&pt)).collect();
        all &= matches!(catch(|| w.check(&idx, &pt, vals, &proofs[k], &mut sp_v)), Ok(Ok(true)));
    }
    if all {
        Verdict::viol("accepted-out-of-order", "two proofs verified in transposed order were both accepted")
    } else {
        Verdict::Hold
    }
}
