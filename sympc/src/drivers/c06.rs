//! C06: linear-combination openings prove exactly the stated combinations.
use super::common::*;
use crate::engine::explore::{assume_ne, sym, sym_nonzero, with_sym_rng, Verdict};
use crate::engine::sf::SF;
use crate::schemes::Sch;
use ark_ff::{One, Zero};
use ark_poly_commit::{Evaluations, LCTerm, LabeledCommitment, LabeledPolynomial, LinearCombination, PolynomialCommitment, QuerySet};
use ark_std::rand::{rngs::StdRng, SeedableRng};

#[derive(Clone, Debug)]
pub enum T {
    /// symbolic coefficient times polynomial i
    P(usize),
    /// coefficient fixed to one times polynomial i
    P1(usize),
    /// symbolic constant term
    One,
}
#[derive(Clone, Debug)]
pub struct LcShape {
    pub lcs: Vec<Vec<T>>,
    /// (lc index, point index)
    pub queries: Vec<(usize, usize)>,
}
#[derive(Clone, Copy, Debug, PartialEq)]
pub enum Pert {
    None,
    /// claimed value of query `i` += delta
    Value(usize),
    /// verifier-side coefficient of the first polynomial term of lc 0 += delta (needs p(z) != 0)
    Coeff,
    /// verifier-side constant of lc 0 += delta (the lc must have a constant term)
    Const,
    /// default implementation only: transmitted evaluations shifted keeping the lc value (2-term lc 0)
    EvalShift,
    /// the shape mixes a degree-bounded polynomial with other terms: opening must be refused
    ExpectDegBoundErr,
}

pub fn run<S: Sch>(cfg: &Cfg, shape: &LcShape, pert: Pert, negate: bool) -> Verdict {
    let delta = sym_nonzero("delta");
    let mut w = match catch(|| build::<S>(cfg)) {
        Ok(Ok(w)) => w,
        Ok(Err(v)) => return if pert == Pert::None { v } else { Verdict::Discard("honest phase failed".into()) },
        Err(p) => return if pert == Pert::None { Verdict::viol(&p, p.clone()) } else { Verdict::Discard("honest phase failed".into()) },
    };
    // build the linear combinations with symbolic coefficients / constants
    let mut lcs: Vec<LinearCombination<SF>> = vec![];
    for (i, sh) in shape.lcs.iter().enumerate() {
        let mut lc = LinearCombination::empty(format!("lc{}", i));
        for (j, t) in sh.iter().enumerate() {
            match t {
                T::P(p) => { lc.push((sym(&format!("a{}_{}", i, j)), LCTerm::PolyLabel(format!("p{}", p)))); }
                T::P1(p) => { lc.push((SF::one(), LCTerm::PolyLabel(format!("p{}", p)))); }
                T::One => { lc.push((sym(&format!("k{}_{}", i, j)), LCTerm::One)); }
            }
        }
        lcs.push(lc);
    }
    let lc_val = |lc: &LinearCombination<SF>, w: &World<S>, z: &PointOf<S>| -> SF {
        let mut acc = SF::zero();
        for (c, t) in lc.iter() {
            acc += match t {
                LCTerm::One => *c,
                LCTerm::PolyLabel(l) => {
                    let i: usize = l[1..].parse().unwrap();
                    *c * w.lps[i].evaluate(z)
                }
            };
        }
        acc
    };
    let mut qs: QuerySet<PointOf<S>> = QuerySet::new();
    let mut ev: Evaluations<PointOf<S>, SF> = Evaluations::new();
    for (li, zi) in &shape.queries {
        qs.insert((format!("lc{}", li), (w.points[*zi].0.clone(), w.points[*zi].1.clone())));
        ev.insert((format!("lc{}", li), w.points[*zi].1.clone()), lc_val(&lcs[*li], &w, &w.points[*zi].1));
    }
    let sp0 = sponge(cfg, 1);
    let (mut sp_p, mut sp_v) = (sp0.clone(), sp0.clone());
    let sym_rng = cfg.sym_rng;
    let opened = catch(|| {
        let rng = &mut w.rng;
        with_sym_rng(sym_rng, || PCOf::<S>::open_combinations(&w.ck, &lcs, &w.lps, &w.comms, &qs, &mut sp_p, &w.states, Some(rng)))
    });
    if pert == Pert::ExpectDegBoundErr {
        match opened {
            Ok(Ok(_)) => return Verdict::viol("degree-bound-dropped", "a combination mixing a degree-bounded polynomial with other terms was opened"),
            Ok(Err(e)) => {
                if errname(&e) != "EquationHasDegreeBounds" {
                    return Verdict::viol("wrong-error", format!("expected EquationHasDegreeBounds, got {}", errname(&e)));
                }
            }
            Err(p) => return Verdict::viol("degree-bound-mix-panic", p),
        }
        // verifier side: the same polynomials committed *without* bounds (same keys), the combination opened
        // honestly there, and the proof presented with the commitments labelled with the bounds again: the
        // verifier must not accept an equation whose degree bound it cannot enforce
        let mut cfg2 = cfg.clone();
        cfg2.enforced = Some(cfg.enforced.clone().unwrap_or_else(|| cfg.polys.iter().filter_map(|p| p.bound).collect()));
        for p in cfg2.polys.iter_mut() {
            p.bound = None;
        }
        let mut w2 = match catch(|| build::<S>(&cfg2)) {
            Ok(Ok(w)) => w,
            _ => return Verdict::Discard("honest phase failed".into()),
        };
        let mut ev2: Evaluations<PointOf<S>, SF> = Evaluations::new();
        let mut qs2: QuerySet<PointOf<S>> = QuerySet::new();
        for (li, zi) in &shape.queries {
            qs2.insert((format!("lc{}", li), (w2.points[*zi].0.clone(), w2.points[*zi].1.clone())));
            ev2.insert((format!("lc{}", li), w2.points[*zi].1.clone()), lc_val(&lcs[*li], &w2, &w2.points[*zi].1));
        }
        let (mut sp_p2, mut sp_v2) = (sp0.clone(), sp0.clone());
        let proof2 = match catch(|| {
            let rng = &mut w2.rng;
            with_sym_rng(sym_rng, || PCOf::<S>::open_combinations(&w2.ck, &lcs, &w2.lps, &w2.comms, &qs2, &mut sp_p2, &w2.states, Some(rng)))
        }) {
            Ok(Ok(p)) => p,
            _ => return Verdict::Discard("the unbounded combination could not be opened".into()),
        };
        let relabelled: Vec<LabeledCommitment<CommOf<S>>> = w2.comms.iter().enumerate().map(|(i, c)| LabeledCommitment::new(c.label().clone(), c.commitment().clone(), cfg.polys[i].bound)).collect();
        let mut vrng = StdRng::seed_from_u64(cfg.seed + 100);
        let res = catch(|| PCOf::<S>::check_combinations(&w2.vk, &lcs, relabelled.iter(), &qs2, &ev2, &proof2, &mut sp_v2, &mut vrng));
        return match res {
            Ok(Ok(true)) => Verdict::viol("degree-bound-dropped-by-verifier", "check_combinations accepted an equation that mixes a commitment labelled with a degree bound with other terms"),
            _ => Verdict::Hold,
        };
    }
    let mut proof = match opened {
        Ok(Ok(p)) => p,
        Ok(Err(e)) => return if pert == Pert::None { Verdict::viol(&format!("open-combinations-err:{}", errname(&e)), format!("{:?}", e)) } else { Verdict::Discard("honest phase failed".into()) },
        Err(p) => return if pert == Pert::None { Verdict::viol(&p, p.clone()) } else { Verdict::Discard("honest phase failed".into()) },
    };
    // the verifier's view
    let mut vlcs = lcs.clone();
    match pert {
        Pert::None | Pert::ExpectDegBoundErr => {}
        Pert::Value(i) => {
            let keys: Vec<_> = ev.keys().cloned().collect();
            let k = keys[i % keys.len()].clone();
            *ev.get_mut(&k).unwrap() += delta;
        }
        Pert::Coeff => {
            let pos = vlcs[0].terms.iter().position(|(_, t)| !t.is_one()).unwrap();
            let label = match &vlcs[0].terms[pos].1 { LCTerm::PolyLabel(l) => l.clone(), _ => unreachable!() };
            let pi: usize = label[1..].parse().unwrap();
            // the statement changes only if p(z) != 0 at the queried points of lc0
            for (li, zi) in &shape.queries {
                if *li == 0 && !assume_ne(w.lps[pi].evaluate(&w.points[*zi].1), SF::zero(), "p(z) == 0: the changed coefficient does not change the claim") {
                    return Verdict::Hold;
                }
            }
            vlcs[0].terms[pos].0 += delta;
        }
        Pert::Const => {
            let pos = vlcs[0].terms.iter().position(|(_, t)| t.is_one()).unwrap();
            vlcs[0].terms[pos].0 += delta;
        }
        Pert::EvalShift => match proof.evals.as_mut() {
            Some(evals) if evals.len() >= 2 => {
                // lc0 = a*p_i + b*p_j at one point: e_i += delta*b, e_j -= delta*a keeps a*e_i + b*e_j
                let (a, b) = (lcs[0].terms[0].0, lcs[0].terms[1].0);
                if !assume_ne(a, SF::zero(), "a == 0") || !assume_ne(b, SF::zero(), "b == 0") {
                    return Verdict::Hold;
                }
                evals[0] += delta * b;
                evals[1] -= delta * a;
            }
            _ => return Verdict::Discard("scheme does not transmit evaluations".into()),
        },
    }
    let mut vrng = StdRng::seed_from_u64(cfg.seed + 100);
    let comms: Vec<&LabeledCommitment<CommOf<S>>> = w.comms.iter().collect();
    let res = catch(|| PCOf::<S>::check_combinations(&w.vk, &vlcs, comms, &qs, &ev, &proof, &mut sp_v, &mut vrng));
    let _ = LabeledPolynomial::<SF, POf<S>>::label;
    match (pert, res) {
        (Pert::None, Ok(Ok(true))) => Verdict::Hold,
        (Pert::None, Ok(Ok(false))) => Verdict::viol("rejected", "honest combination proof rejected"),
        (Pert::None, Ok(Err(e))) => Verdict::viol(&format!("check-combinations-err:{}", errname(&e)), format!("{:?}", e)),
        (Pert::None, Err(p)) => Verdict::viol(&p, p.clone()),
        (_, Ok(Ok(true))) => if negate { Verdict::Hold } else { Verdict::viol("accepted-false-combination", format!("{:?}: check_combinations accepted", pert)) },
        (_, _) => if negate { Verdict::viol("twin", "twin: perturbed combination not accepted") } else { Verdict::Hold },
    }
}
