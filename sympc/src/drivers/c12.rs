//! C12: keys, commitments, states and proofs survive canonical serialization.
//! Every artefact produced along the explored honest transcripts (so for every option/shape variant
//! and every special value the solver drives the transcript into) is round-tripped in the four
//! compress/validate modes. The round trips themselves are concrete executions.
use super::common::*;
use crate::engine::explore::{with_sym_rng, Verdict};
use crate::engine::ro::SER_QUIET;
use crate::engine::sf::SF;
use crate::schemes::Sch;
use ark_ff::One;
use ark_poly_commit::{BatchLCProof, LCTerm, LabeledCommitment, LinearCombination, PolynomialCommitment, QuerySet, Evaluations};
use ark_serialize::{CanonicalDeserialize, CanonicalSerialize, Compress, Validate};
use ark_std::rand::{rngs::StdRng, SeedableRng};

pub fn roundtrip<T: CanonicalSerialize + CanonicalDeserialize>(x: &T, what: &str, prefixes: bool) -> Result<Vec<T>, Verdict> {
    let mut outs = vec![];
    let cn = |c: Compress| if let Compress::Yes = c { "compressed" } else { "uncompressed" };
    let vn = |v: Validate| if let Validate::Yes = v { "validated" } else { "unvalidated" };
    for c in [Compress::Yes, Compress::No] {
        let mut bytes = vec![];
        if x.serialize_with_mode(&mut bytes, c).is_err() {
            return Err(Verdict::viol("serialize-failed", format!("{}: serialization failed", what)));
        }
        if bytes.len() != x.serialized_size(c) {
            return Err(Verdict::viol("serialized-size", format!("{}: serialized_size({}) = {} but {} bytes were written", what, cn(c), x.serialized_size(c), bytes.len())));
        }
        for v in [Validate::Yes, Validate::No] {
            let y = match T::deserialize_with_mode(&bytes[..], c, v) {
                Ok(y) => y,
                Err(e) => return Err(Verdict::viol("deserialize-failed", format!("{}: deserialization ({}, {}) of an honest artefact failed: {:?}", what, cn(c), vn(v), e))),
            };
            let mut again = vec![];
            let _ = y.serialize_with_mode(&mut again, c);
            if again != bytes {
                return Err(Verdict::viol("reserialization-differs", format!("{}: ser(deser(ser(x))) != ser(x) in mode ({}, {})", what, cn(c), vn(v))));
            }
            if prefixes {
                for n in 0..bytes.len() {
                    if T::deserialize_with_mode(&bytes[..n], c, v).is_ok() {
                        return Err(Verdict::viol("truncated-input-accepted", format!("{}: a prefix of {} out of {} bytes was accepted in mode ({}, {})", what, n, bytes.len(), cn(c), vn(v))));
                    }
                }
            }
            outs.push(y);
        }
    }
    Ok(outs)
}

pub fn artefacts<S: Sch>(cfg: &Cfg, with_lc: bool) -> Verdict
where
    StateOf<S>: CanonicalSerialize + CanonicalDeserialize,
    ProofOf<S>: CanonicalSerialize + CanonicalDeserialize,
{
    let mut w = match build::<S>(cfg) {
        Ok(w) => w,
        Err(v) => return v,
    };
    let sp0 = sponge(cfg, 1);
    let qs = w.query_set();
    let ev = w.evaluations();
    let idx = w.at_point(0);
    let proof = match w.open(&idx, 0, &mut sp0.clone()) {
        Ok(p) => p,
        Err(e) => return Verdict::viol(&format!("open-err:{}", e), e.clone()),
    };
    let bproof = match w.batch_open(&qs, &mut sp0.clone()) {
        Ok(p) => p,
        Err(e) => return Verdict::viol(&format!("batch-open-err:{}", e), e.clone()),
    };
    SER_QUIET.with(|c| c.set(true));
    let r = (|| -> Result<(), Verdict> {
        let pp2 = roundtrip(&w.pp, "universal parameters", true)?;
        let ck2 = roundtrip(&w.ck, "committer key", true)?;
        let vk2 = roundtrip(&w.vk, "verifier key", true)?;
        let mut comms2: Vec<Vec<CommOf<S>>> = vec![];
        for (i, c) in w.comms.iter().enumerate() {
            comms2.push(roundtrip(c.commitment(), &format!("commitment {}", i), true)?);
        }
        for (i, s) in w.states.iter().enumerate() {
            roundtrip(s, &format!("commitment state {}", i), true)?;
        }
        let proof2 = roundtrip(&proof, "opening proof", true)?;
        let bproof2 = roundtrip(&bproof, "batch proof", true)?;
        // the deserialized keys report the degrees of the originals, and the deserialized parameters trim to the
        // same keys
        {
            use ark_poly_commit::{PCCommitterKey, PCUniversalParams, PCVerifierKey};
            for (m, k) in ck2.iter().enumerate() {
                if k.max_degree() != w.ck.max_degree() || k.supported_degree() != w.ck.supported_degree() {
                    return Err(Verdict::viol("key-report-differs-after-roundtrip", format!("committer key (mode {}): max/supported degree {}/{} became {}/{}", m, w.ck.max_degree(), w.ck.supported_degree(), k.max_degree(), k.supported_degree())));
                }
            }
            for (m, k) in vk2.iter().enumerate() {
                if k.max_degree() != w.vk.max_degree() || k.supported_degree() != w.vk.supported_degree() {
                    return Err(Verdict::viol("key-report-differs-after-roundtrip", format!("verifier key (mode {}): max/supported degree {}/{} became {}/{}", m, w.vk.max_degree(), w.vk.supported_degree(), k.max_degree(), k.supported_degree())));
                }
            }
            for (m, p) in pp2.iter().enumerate() {
                if p.max_degree() != w.pp.max_degree() {
                    return Err(Verdict::viol("key-report-differs-after-roundtrip", format!("universal parameters (mode {}): max_degree {} became {}", m, w.pp.max_degree(), p.max_degree())));
                }
            }
        }
        // the deserialized committer key is used: committing and opening with it (same RNG stream) gives the
        // commitments and the proof the original key gives, byte for byte
        {
            let ser = |x: &dyn Fn(&mut Vec<u8>)| -> Vec<u8> { let mut b = vec![]; x(&mut b); b };
            let sym_rng = cfg.sym_rng;
            let reference = {
                let mut r = StdRng::seed_from_u64(cfg.seed + 900);
                catch(|| with_sym_rng(false, || PCOf::<S>::commit(&w.ck, &w.lps, Some(&mut r)))).ok().and_then(|x| x.ok())
            };
            let _ = sym_rng;
            if let Some((c_ref, st_ref)) = reference {
                let pt = w.points[0].1.clone();
                let p_ref = {
                    let mut r = StdRng::seed_from_u64(cfg.seed + 901);
                    catch(|| with_sym_rng(false, || PCOf::<S>::open(&w.ck, idx.iter().map(|i| &w.lps[*i]), idx.iter().map(|i| &c_ref[*i]), &pt, &mut sp0.clone(), idx.iter().map(|i| &st_ref[*i]), Some(&mut r)))).ok().and_then(|x| x.ok())
                };
                for (m, k) in ck2.iter().enumerate() {
                    let mut r = StdRng::seed_from_u64(cfg.seed + 900);
                    let again = catch(|| with_sym_rng(false, || PCOf::<S>::commit(k, &w.lps, Some(&mut r)))).ok().and_then(|x| x.ok());
                    let (c2, st2) = match again {
                        Some(x) => x,
                        None => return Err(Verdict::viol("decision-differs-after-roundtrip", format!("commit succeeds with the original committer key and fails with the deserialized one (mode {})", m))),
                    };
                    for i in 0..c_ref.len() {
                        if ser(&|b| { let _ = c_ref[i].commitment().serialize_compressed(b); }) != ser(&|b| { let _ = c2[i].commitment().serialize_compressed(b); }) {
                            return Err(Verdict::viol("decision-differs-after-roundtrip", format!("commitment {} made with the deserialized committer key (mode {}) differs from the one made with the original key", i, m)));
                        }
                    }
                    if let Some(p_ref) = &p_ref {
                        let mut r = StdRng::seed_from_u64(cfg.seed + 901);
                        let p2 = catch(|| with_sym_rng(false, || PCOf::<S>::open(k, idx.iter().map(|i| &w.lps[*i]), idx.iter().map(|i| &c2[*i]), &pt, &mut sp0.clone(), idx.iter().map(|i| &st2[*i]), Some(&mut r)))).ok().and_then(|x| x.ok());
                        match p2 {
                            Some(p2) => {
                                if ser(&|b| { let _ = p_ref.serialize_compressed(b); }) != ser(&|b| { let _ = p2.serialize_compressed(b); }) {
                                    return Err(Verdict::viol("decision-differs-after-roundtrip", format!("the opening proof made with the deserialized committer key (mode {}) differs from the one made with the original key", m)));
                                }
                            }
                            None => return Err(Verdict::viol("decision-differs-after-roundtrip", format!("open succeeds with the original committer key and fails with the deserialized one (mode {})", m))),
                        }
                    }
                }
            }
        }
        // decisions with deserialized verifier key, commitments and proofs equal the originals,
        // on the honest claim and on one tampered claim, for single and batched verification
        let pt = w.points[0].1.clone();
        let vals: Vec<SF> = idx.iter().map(|i| w.lps[*i].evaluate(&pt)).collect();
        let mut bad = vals.clone();
        bad[0] += SF::one();
        for mode in 0..vk2.len() {
            let comms_m: Vec<LabeledCommitment<CommOf<S>>> = w.comms.iter().enumerate().map(|(i, c)| LabeledCommitment::new(c.label().clone(), comms2[i][mode].clone(), c.degree_bound())).collect();
            for (claims, tag) in [(&vals, "honest"), (&bad, "tampered")] {
                let orig = catch(|| PCOf::<S>::check(&w.vk, idx.iter().map(|i| &w.comms[*i]), &pt, claims.clone(), &proof, &mut sp0.clone(), Some(&mut StdRng::seed_from_u64(3))).map_err(|e| errname(&e)));
                let deser = catch(|| PCOf::<S>::check(&vk2[mode], idx.iter().map(|i| &comms_m[*i]), &pt, claims.clone(), &proof2[mode], &mut sp0.clone(), Some(&mut StdRng::seed_from_u64(3))).map_err(|e| errname(&e)));
                if matches!(orig, Ok(Ok(true))) != matches!(deser, Ok(Ok(true))) {
                    return Err(Verdict::viol("decision-differs-after-roundtrip", format!("check on the {} claim: original {:?}, with deserialized key/commitments/proof (mode {}) {:?}", tag, orig, mode, deser)));
                }
            }
            let mut evb = ev.clone();
            let k0 = evb.keys().next().cloned().unwrap();
            *evb.get_mut(&k0).unwrap() += SF::one();
            for (claims, tag) in [(&ev, "honest"), (&evb, "tampered")] {
                let orig = catch(|| PCOf::<S>::batch_check(&w.vk, &w.comms, &qs, claims, &bproof, &mut sp0.clone(), &mut StdRng::seed_from_u64(3)).map_err(|e| errname(&e)));
                let deser = catch(|| PCOf::<S>::batch_check(&vk2[mode], &comms_m, &qs, claims, &bproof2[mode], &mut sp0.clone(), &mut StdRng::seed_from_u64(3)).map_err(|e| errname(&e)));
                if matches!(orig, Ok(Ok(true))) != matches!(deser, Ok(Ok(true))) {
                    return Err(Verdict::viol("decision-differs-after-roundtrip", format!("batch_check on the {} claims: original {:?}, with deserialized key/commitments/proof (mode {}) {:?}", tag, orig, mode, deser)));
                }
            }
        }
        Ok(())
    })();
    SER_QUIET.with(|c| c.set(false));
    if let Err(v) = r {
        return v;
    }
    if with_lc {
        // combination proof (BatchLCProof with and without transmitted evaluations)
        let mut lc = LinearCombination::empty("lc");
        lc.push((SF::one(), LCTerm::PolyLabel("p0".into())));
        let mut lqs: QuerySet<PointOf<S>> = QuerySet::new();
        lqs.insert(("lc".into(), (w.points[0].0.clone(), w.points[0].1.clone())));
        let sym_rng = cfg.sym_rng;
        let lcp: Result<BatchLCProof<SF, BatchProofOf<S>>, String> = {
            let rng = &mut w.rng;
            catch(|| with_sym_rng(sym_rng, || PCOf::<S>::open_combinations(&w.ck, [&lc], &w.lps, &w.comms, &lqs, &mut sp0.clone(), &w.states, Some(rng)).map_err(|e| errname(&e)))).and_then(|x| x)
        };
        if let Ok(lcp) = lcp {
            SER_QUIET.with(|c| c.set(true));
            let r = roundtrip(&lcp, "combination proof", true);
            SER_QUIET.with(|c| c.set(false));
            if let Err(v) = r {
                return v;
            }
        }
    }
    let _ = Evaluations::<SF, SF>::new();
    Verdict::Hold
}

/// kzg10::Powers (the committer key handed to KZG10::commit/open), as produced by Marlin and Sonic keys in the
/// shapes trim can produce - hiding bound below, equal to and above the supported degree; plain and shifted -
/// round-trips, and committing with the deserialized powers gives the same commitment.
pub fn kzg_powers(seed: u64) -> Verdict {
    use crate::engine::grp::ToyPairing;
    use crate::schemes::{MarlinPC, SonicPC, UP};
    use ark_poly::DenseUVPolynomial;
    use ark_poly_commit::kzg10::{Powers, KZG10};
    use ark_ff::UniformRand;
    let rng = &mut StdRng::seed_from_u64(seed + 41);
    let ppm = MarlinPC::setup(8, None, rng).unwrap();
    let pps = SonicPC::setup(8, None, rng).unwrap();
    SER_QUIET.with(|c| c.set(true));
    let r = (|| -> Result<(), Verdict> {
        for (sup, hid, bounds) in [(3usize, 1usize, Some(vec![2usize, 3])), (2, 2, None), (2, 4, Some(vec![1usize])), (1, 6, None), (8, 0, Some(vec![8usize]))] {
            let (mck, _) = MarlinPC::trim(&ppm, sup, hid, bounds.as_deref()).map_err(|e| Verdict::viol("trim-err", format!("{:?}", e)))?;
            let (sck, _) = SonicPC::trim(&pps, sup, hid, bounds.as_deref()).map_err(|e| Verdict::viol("trim-err", format!("{:?}", e)))?;
            let mut list: Vec<(String, Powers<ToyPairing>)> = vec![(format!("marlin powers (supported {}, hiding {})", sup, hid), mck.powers()), (format!("sonic powers (supported {}, hiding {})", sup, hid), sck.powers())];
            for b in bounds.clone().unwrap_or_default() {
                if let Some(p) = mck.shifted_powers(b) {
                    list.push((format!("marlin shifted powers for bound {} (supported {}, hiding {})", b, sup, hid), p));
                }
                if let Some(p) = sck.shifted_powers(b) {
                    list.push((format!("sonic shifted powers for bound {} (supported {}, hiding {})", b, sup, hid), p));
                }
            }
            for (what, p) in list {
                let back = roundtrip(&p, &what, true)?;
                let poly = UP::from_coefficients_vec(vec![SF::rand(rng)]);
                let orig = KZG10::<ToyPairing, UP>::commit(&p, &poly, None, None).map(|x| x.0);
                for q in back {
                    let again = KZG10::<ToyPairing, UP>::commit(&q, &poly, None, None).map(|x| x.0);
                    if orig.as_ref().ok() != again.as_ref().ok() {
                        return Err(Verdict::viol("decision-differs-after-roundtrip", format!("{}: committing with the deserialized powers gives another result", what)));
                    }
                }
            }
        }
        Ok(())
    })();
    SER_QUIET.with(|c| c.set(false));
    match r {
        Ok(()) => Verdict::Hold,
        Err(v) => v,
    }
}

/// multilinear_pc: parameters, keys, commitment and proof round-trip; the decision with deserialized
/// artefacts equals the original on the honest and on a tampered claim
pub fn mlpst_artefacts(nv: usize, seed: u64) -> Verdict {
    use crate::engine::grp::ToyPairing;
    use ark_ff::UniformRand;
    use ark_poly::{DenseMultilinearExtension, MultilinearExtension, Polynomial};
    use ark_poly_commit::multilinear_pc::MultilinearPC;
    let rng = &mut StdRng::seed_from_u64(seed + 43);
    let pp = MultilinearPC::<ToyPairing>::setup(nv, rng);
    let (ck, vk) = MultilinearPC::<ToyPairing>::trim(&pp, nv);
    let p = DenseMultilinearExtension::from_evaluations_vec(nv, (0..1 << nv).map(|_| SF::rand(rng)).collect());
    let pt: Vec<SF> = (0..nv).map(|_| SF::rand(rng)).collect();
    let com = MultilinearPC::commit(&ck, &p);
    let proof = MultilinearPC::open(&ck, &p, &pt);
    let v = p.evaluate(&pt);
    SER_QUIET.with(|c| c.set(true));
    let r = (|| -> Result<(), Verdict> {
        roundtrip(&pp, "multilinear universal parameters", true)?;
        let ck2 = roundtrip(&ck, "multilinear committer key", true)?;
        let vk2 = roundtrip(&vk, "multilinear verifier key", true)?;
        let com2 = roundtrip(&com, "multilinear commitment", true)?;
        let proof2 = roundtrip(&proof, "multilinear proof", true)?;
        for m in 0..vk2.len() {
            for (val, tag) in [(v, "honest"), (v + SF::one(), "tampered")] {
                let a = MultilinearPC::check(&vk, &com, &pt, val, &proof);
                let b = MultilinearPC::check(&vk2[m], &com2[m], &pt, val, &proof2[m]);
                if a != b {
                    return Err(Verdict::viol("decision-differs-after-roundtrip", format!("multilinear check on the {} claim: original {}, deserialized (mode {}) {}", tag, a, m, b)));
                }
            }
            let c3 = MultilinearPC::commit(&ck2[m], &p);
            let mut x = vec![];
            let mut y = vec![];
            let _ = c3.serialize_compressed(&mut x);
            let _ = com.serialize_compressed(&mut y);
            if x != y {
                return Err(Verdict::viol("decision-differs-after-roundtrip", "committing with the deserialized multilinear key gives another commitment"));
            }
        }
        Ok(())
    })();
    SER_QUIET.with(|c| c.set(false));
    match r {
        Ok(()) => Verdict::Hold,
        Err(v) => v,
    }
}
