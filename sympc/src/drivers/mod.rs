pub mod c01;
pub mod common;
pub mod c02;
pub mod c16;
pub mod c14;
pub mod c08;
pub mod c07;
pub mod c09;
