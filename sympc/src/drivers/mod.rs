pub mod c01;
pub mod common;
pub mod c02;
pub mod c16;
pub mod c14;
