pub mod c01;
pub mod common;
pub mod c02;
