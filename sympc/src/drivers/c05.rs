//! C05: batched verification is as strict as verifying every query point on its own.
use super::common::*;
use crate::engine::explore::{sym, sym_nonzero, Verdict};
use crate::engine::sf::SF;
use crate::schemes::Sch;
use ark_poly_commit::{Evaluations, PolynomialCommitment};

/// batch_check under `ntapes` independent verifier-randomness tapes accepts on all of them
/// exactly when every per-point `check` accepts (same sponge, same order). Every claim carries a
/// free symbolic error (zero included).
pub fn equiv<S: Sch>(cfg: &Cfg, ntapes: usize, honest_only: bool) -> Verdict {
    equiv_mode::<S>(cfg, ntapes, honest_only, false)
}

/// `forge_w`: additionally the witness element(s) of the proof for the last point label are replaced by fresh
/// symbolic group elements (the identity included), i.e. the batch and the per-point verifiers are compared
/// on proofs the prover controls
pub fn equiv_mode<S: Sch>(cfg: &Cfg, ntapes: usize, honest_only: bool, forge_w: bool) -> Verdict {
    let mut w = match catch(|| build::<S>(cfg)) {
        Ok(Ok(w)) => w,
        _ => return Verdict::Discard("honest phase failed".into()),
    };
    let qs = w.query_set();
    let mut ev: Evaluations<PointOf<S>, SF> = w.evaluations();
    let sp0 = sponge(cfg, 1);
    let mut sp_p = sp0.clone();
    let proof = match catch(|| w.batch_open(&qs, &mut sp_p)) {
        Ok(Ok(p)) => p,
        _ => return Verdict::Discard("honest phase failed".into()),
    };
    if !honest_only {
        let keys: Vec<_> = ev.keys().cloned().collect();
        for (i, k) in keys.iter().enumerate() {
            *ev.get_mut(k).unwrap() += sym(&format!("err{}", i));
        }
    }
    let proof = if forge_w {
        let mut proofs: Vec<ProofOf<S>> = proof.into();
        if let Some(last) = proofs.last_mut() {
            let mut k = 0;
            while S::set_proof_elem(last, k, sym(&format!("fw{}", k))) {
                k += 1;
                if k >= 4 || S::UNIVARIATE {
                    break;
                }
            }
            if k == 0 {
                return Verdict::viol("driver", "scheme has no witness element to forge");
            }
        }
        let bp: BatchProofOf<S> = proofs.into();
        bp
    } else {
        proof
    };
    let mut all_batch = true;
    for tpe in 0..ntapes {
        let mut sp_v = sp0.clone();
        let r = catch(|| w.batch_check(&qs, &ev, &proof, &mut sp_v, cfg.seed * 1000 + 17 * tpe as u64 + 1));
        all_batch &= matches!(r, Ok(Ok(true)));
    }
    // per-point checks in point-label order, polynomials in label order, on one sponge
    let proofs: Vec<ProofOf<S>> = proof.clone().into();
    let mut labels: Vec<usize> = (0..w.points.len()).filter(|k| !w.at_point(*k).is_empty()).collect();
    labels.sort_by_key(|k| w.points[*k].0.clone());
    let mut all_single = proofs.len() == labels.len();
    let mut sp_s = sp0.clone();
    for (pos, k) in labels.iter().enumerate() {
        if pos >= proofs.len() {
            break;
        }
        let mut idx = w.at_point(*k);
        idx.sort_by_key(|i| w.lps[*i].label().clone());
        let pt = w.points[*k].1.clone();
        let vals: Vec<SF> = idx.iter().map(|i| *ev.get(&(w.lps[*i].label().clone(), pt.clone())).unwrap()).collect();
        let r = catch(|| w.check(&idx, &pt, vals, &proofs[pos], &mut sp_s));
        all_single &= matches!(r, Ok(Ok(true)));
    }
    if all_batch == all_single {
        Verdict::Hold
    } else {
        Verdict::viol(
            if all_batch { "batch-accepts-singles-reject" } else { "batch-rejects-singles-accept" },
            format!("batch_check under {} tapes: {}, conjunction of per-point checks: {}", ntapes, all_batch, all_single),
        )
    }
}

#[derive(Clone, Copy, Debug, PartialEq)]
pub enum ListMut {
    /// last proof removed, false claim at the last point label
    Truncate,
    /// no proofs at all, false claim at the last point label
    Empty,
    /// first two proofs swapped, all claims true
    Swap,
    /// second proof replaced by a copy of the first, all claims true
    Dup,
    /// an extra proof appended, false claim at the last point label
    Surplus,
}

pub fn proof_list<S: Sch>(cfg: &Cfg, m: ListMut) -> Verdict {
    let delta = sym_nonzero("delta");
    let mut w = match catch(|| build::<S>(cfg)) {
        Ok(Ok(w)) => w,
        _ => return Verdict::Discard("honest phase failed".into()),
    };
    let qs = w.query_set();
    let mut ev: Evaluations<PointOf<S>, SF> = w.evaluations();
    let sp0 = sponge(cfg, 1);
    let (mut sp_p, mut sp_v) = (sp0.clone(), sp0.clone());
    let proof = match catch(|| w.batch_open(&qs, &mut sp_p)) {
        Ok(Ok(p)) => p,
        _ => return Verdict::Discard("honest phase failed".into()),
    };
    let mut proofs: Vec<ProofOf<S>> = proof.into();
    if proofs.len() < 2 {
        return Verdict::viol("driver", "proof-list scenarios need at least two point labels");
    }
    // false claim at the last point label (in label order)
    let mut labels: Vec<usize> = (0..w.points.len()).filter(|k| !w.at_point(*k).is_empty()).collect();
    labels.sort_by_key(|k| w.points[*k].0.clone());
    let last = *labels.last().unwrap();
    let falsify = |ev: &mut Evaluations<PointOf<S>, SF>, w: &World<S>| {
        let i = w.at_point(last)[0];
        let k = (w.lps[i].label().clone(), w.points[last].1.clone());
        *ev.get_mut(&k).unwrap() += delta;
    };
    match m {
        ListMut::Truncate => {
            proofs.pop();
            falsify(&mut ev, &w);
        }
        ListMut::Empty => {
            proofs.clear();
            falsify(&mut ev, &w);
        }
        ListMut::Swap => proofs.swap(0, 1),
        ListMut::Dup => proofs[1] = proofs[0].clone(),
        ListMut::Surplus => {
            proofs.push(proofs[0].clone());
            falsify(&mut ev, &w);
        }
    }
    let bp: BatchProofOf<S> = proofs.into();
    let r = catch(|| w.batch_check(&qs, &ev, &bp, &mut sp_v, cfg.seed + 100));
    let _ = <S::PC as PolynomialCommitment<SF, S::P>>::setup::<ark_std::rand::rngs::StdRng>;
    match r {
        Ok(Ok(true)) => Verdict::viol("accepted-mutated-proof-list", format!("{:?}: batch_check accepted", m)),
        _ => Verdict::Hold,
    }
}
