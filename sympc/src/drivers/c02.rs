//! C02 binding with an honest proof: value / point / commitment of the statement changed => not accepted.
use super::c01::Mode;
use super::common::*;
use crate::engine::explore::{assume_ne, sym, sym_nonzero, Verdict};
use crate::engine::sf::SF;
use crate::schemes::Sch;
use ark_poly_commit::{LabeledCommitment, PolynomialCommitment};

#[derive(Clone, Copy, Debug, PartialEq)]
pub enum Kind {
    /// claimed value of the `i`-th query += delta, delta != 0
    Value(usize),
    /// point of label 0 replaced by z + dz (coordinate `j`), dz != 0, assuming p(z') != claimed value and W != 0
    Point(usize),
    /// commitment of polynomial 0 replaced by the honest commitment to another (symbolic) polynomial, assuming the commitments differ
    Comm,
}

/// `negate`: vacuity twin — asserts the opposite (the perturbed statement IS accepted); must be violated.
pub fn perturbed<S: Sch>(cfg: &Cfg, mode: Mode, kind: Kind, negate: bool) -> Verdict {
    let delta = sym_nonzero("delta");
    let mut cfg = cfg.clone();
    if kind == Kind::Comm {
        // the replacement polynomial q: same shape as polynomial 0, appended last, never queried
        let mut q = cfg.polys[0].clone();
        q.sym = true;
        cfg.polys.push(q);
    }
    // failures of the honest phase belong to C01/C17, not to this property
    let mut w = match catch(|| build::<S>(&cfg)) {
        Ok(Ok(w)) => w,
        _ => return Verdict::Discard("honest phase failed".into()),
    };
    let nq = cfg.polys.len() - if kind == Kind::Comm { 1 } else { 0 };
    let sp0 = sponge(&cfg, 1);
    let (mut sp_p, mut sp_v) = (sp0.clone(), sp0.clone());
    let accepted: Result<bool, String>;
    match mode {
        Mode::Single => {
            let idx: Vec<usize> = w.at_point(0).into_iter().filter(|i| *i < nq).collect();
            let proof = match catch(|| w.open(&idx, 0, &mut sp_p)) {
                Ok(Ok(p)) => p,
                _ => return Verdict::Discard("honest phase failed".into()),
            };
            let mut pt = w.points[0].1.clone();
            let mut vals: Vec<SF> = idx.iter().map(|i| w.lps[*i].evaluate(&pt)).collect();
            match kind {
                Kind::Value(i) => vals[i % idx.len()] += delta,
                Kind::Point(j) => {
                    let mut c = S::point_coords(&pt);
                    let k = j % c.len();
                    c[k] += delta;
                    pt = S::point(&cfg.sz, c);
                    // the changed statement must be false: p_i(z') != claimed value for some i; we require it for i = 0
                    if !assume_ne(w.lps[idx[0]].evaluate(&pt), vals[0], "p(z') == p(z): the changed statement is true") {
                        return Verdict::Hold;
                    }
                    // W != 0 (first element of the proof): W = 0 is reachable only with trapdoor-aware coefficients
                    if let Some(w0) = S::proof_elem(&proof, k) {
                        if !assume_ne(w0, SF::from(0u8), "witness commitment is the identity") {
                            return Verdict::Hold;
                        }
                    }
                }
                Kind::Comm => {
                    let q = w.comms.len() - 1;
                    let (tp, tq) = (terms_of(w.comms[idx[0]].commitment()), terms_of(w.comms[q].commitment()));
                    if tp.is_empty() || tp.len() != tq.len() || !assume_ne(tp[0], tq[0], "replacement commitment equals the original") {
                        return Verdict::Hold;
                    }
                    let c = LabeledCommitment::new(w.comms[idx[0]].label().clone(), w.comms[q].commitment().clone(), w.comms[idx[0]].degree_bound());
                    w.comms[idx[0]] = c;
                }
            }
            accepted = catch(|| w.check(&idx, &pt, vals, &proof, &mut sp_v)).unwrap_or_else(|p| Err(p));
        }
        Mode::Batch => {
            let qs = w.query_set();
            let mut ev = w.evaluations();
            let proof = match catch(|| w.batch_open(&qs, &mut sp_p)) {
                Ok(Ok(p)) => p,
                _ => return Verdict::Discard("honest phase failed".into()),
            };
            match kind {
                Kind::Value(i) => {
                    let keys: Vec<_> = ev.keys().cloned().collect();
                    let k = keys[i % keys.len()].clone();
                    *ev.get_mut(&k).unwrap() += delta;
                }
                Kind::Comm => {
                    let q = w.comms.len() - 1;
                    let (tp, tq) = (terms_of(w.comms[0].commitment()), terms_of(w.comms[q].commitment()));
                    if tp.is_empty() || tp.len() != tq.len() || !assume_ne(tp[0], tq[0], "replacement commitment equals the original") {
                        return Verdict::Hold;
                    }
                    let c = LabeledCommitment::new(w.comms[0].label().clone(), w.comms[q].commitment().clone(), w.comms[0].degree_bound());
                    w.comms[0] = c;
                }
                Kind::Point(_) => return Verdict::viol("driver", "point perturbation is a single-mode scenario"),
            }
            accepted = catch(|| w.batch_check(&qs, &ev, &proof, &mut sp_v, cfg.seed + 100)).unwrap_or_else(|p| Err(p));
        }
    }
    let _ = sym;
    let _ = <S::PC as PolynomialCommitment<SF, S::P>>::setup::<ark_std::rand::rngs::StdRng>;
    match (accepted, negate) {
        (Ok(true), false) => Verdict::viol("accepted-false-statement", format!("{:?}: verifier accepted the changed statement", kind)),
        (Ok(true), true) => Verdict::Hold,
        (_, false) => Verdict::Hold,
        (r, true) => Verdict::viol("twin", format!("twin: changed statement not accepted ({:?})", r)),
    }
}
