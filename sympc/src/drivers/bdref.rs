//! Independent reference for Brakedown's linear code (Golovnev, Lee, Setty, Thaler, Wahby 2021, fig. 1/2):
//! the *recursive* encoder Enc(x) = x || z || v with y = x*A, z = Enc(y), v = z*B and Reed-Solomon at the
//! points 1, 2, ... below the base length, evaluated over the matrices published in the parameters.
//! The parameters are read through their canonical serialization (no hook): a mirror struct with the same
//! field order is deserialized from the bytes `BrakedownPCParams` writes.
use crate::engine::sf::SF;
use ark_ff::{One, Zero};
use ark_serialize::{CanonicalDeserialize, CanonicalSerialize};

#[derive(CanonicalDeserialize, CanonicalSerialize, Clone, Debug)]
pub struct MatMirror {
    pub n: usize,
    pub m: usize,
    pub d: usize,
    pub ind_ptr: Vec<usize>,
    pub col_ind: Vec<usize>,
    pub val: Vec<SF>,
}
#[derive(CanonicalDeserialize, CanonicalSerialize, Clone, Debug)]
pub struct BdMirror {
    pub sec_param: usize,
    pub alpha: (usize, usize),
    pub beta: (usize, usize),
    pub rho_inv: (usize, usize),
    pub base_len: usize,
    pub n: usize,
    pub m: usize,
    pub m_ext: usize,
    pub a_dims: Vec<(usize, usize, usize)>,
    pub b_dims: Vec<(usize, usize, usize)>,
    pub start: Vec<usize>,
    pub end: Vec<usize>,
    pub a_mats: Vec<MatMirror>,
    pub b_mats: Vec<MatMirror>,
    pub check_well_formedness: bool,
}

pub fn mirror<T: CanonicalSerialize>(pp: &T) -> Result<BdMirror, String> {
    crate::engine::ro::discard_pending();
    let mut b = vec![];
    pp.serialize_uncompressed(&mut b).map_err(|e| format!("{:?}", e))?;
    crate::engine::ro::discard_pending();
    let m = BdMirror::deserialize_uncompressed_unchecked(&b[..]).map_err(|e| format!("mirror: {:?}", e))?;
    let mut b2 = vec![];
    m.serialize_uncompressed(&mut b2).map_err(|e| format!("{:?}", e))?;
    crate::engine::ro::discard_pending();
    if b2 != b {
        return Err("mirror struct does not re-serialize to the parameters' bytes".into());
    }
    Ok(m)
}

pub fn ceil_mul(n: usize, r: (usize, usize)) -> usize {
    (n * r.0 + r.1 - 1) / r.1
}

impl MatMirror {
    /// dense n x m view; None where the sparse matrix has no entry. Err if the CSC arrays are inconsistent.
    pub fn dense(&self) -> Result<Vec<Vec<Option<SF>>>, String> {
        if self.ind_ptr.len() != self.m + 1 || self.ind_ptr[0] != 0 || *self.ind_ptr.last().unwrap() != self.col_ind.len() || self.col_ind.len() != self.val.len() {
            return Err("inconsistent sparse-matrix arrays".into());
        }
        let mut d = vec![vec![None; self.m]; self.n];
        for j in 0..self.m {
            if self.ind_ptr[j] > self.ind_ptr[j + 1] {
                return Err("column pointers decrease".into());
            }
            for k in self.ind_ptr[j]..self.ind_ptr[j + 1] {
                let i = self.col_ind[k];
                if i >= self.n {
                    return Err(format!("row index {} in a matrix with {} rows", i, self.n));
                }
                if d[i][j].is_some() {
                    return Err(format!("entry ({}, {}) stored twice", i, j));
                }
                d[i][j] = Some(self.val[k]);
            }
        }
        Ok(d)
    }
    /// row vector times matrix
    pub fn vec_mat(&self, v: &[SF]) -> Result<Vec<SF>, String> {
        if v.len() != self.n {
            return Err(format!("vector of length {} times a matrix with {} rows", v.len(), self.n));
        }
        let d = self.dense()?;
        Ok((0..self.m)
            .map(|j| {
                let mut acc = SF::zero();
                for i in 0..self.n {
                    if let Some(x) = d[i][j] {
                        acc += v[i] * x;
                    }
                }
                acc
            })
            .collect())
    }
}

/// Enc(x) by the paper's recursion, with the dimension laws checked on the way:
/// |Enc(x)| = ceil(r*|x|); A is |x| x ceil(alpha*|x|); B is |z| x (ceil(r|x|) - |x| - |z|);
/// the recursion stops exactly when |x| < base_len.
pub fn encode_ref(p: &BdMirror, x: &[SF], level: usize) -> Result<Vec<SF>, String> {
    let n = x.len();
    let out_len = ceil_mul(n, p.rho_inv);
    if n < p.base_len {
        if level != p.a_mats.len() {
            return Err(format!("the parameters hold {} A matrices but the recursion ends after {}", p.a_mats.len(), level));
        }
        // Reed-Solomon: x as coefficients, evaluated at 1, 2, ..., out_len
        let mut out = Vec::with_capacity(out_len);
        let mut pt = SF::one();
        for _ in 0..out_len {
            let mut pw = SF::one();
            let mut acc = SF::zero();
            for c in x {
                acc += *c * pw;
                pw *= pt;
            }
            out.push(acc);
            pt += SF::one();
        }
        return Ok(out);
    }
    if level >= p.a_mats.len() || level >= p.b_mats.len() {
        return Err(format!("a message of length {} >= base length {} needs a matrix pair at level {}, the parameters have {}", n, p.base_len, level, p.a_mats.len()));
    }
    let (a, b) = (&p.a_mats[level], &p.b_mats[level]);
    if a.n != n || a.m != ceil_mul(n, p.alpha) {
        return Err(format!("A_{} is {}x{}, the code needs {}x{}", level, a.n, a.m, n, ceil_mul(n, p.alpha)));
    }
    let y = a.vec_mat(x)?;
    let z = encode_ref(p, &y, level + 1)?;
    if out_len < n + z.len() || b.n != z.len() || b.m != out_len - n - z.len() {
        return Err(format!("B_{} is {}x{}, the code needs {}x{}", level, b.n, b.m, z.len(), out_len as i64 - n as i64 - z.len() as i64));
    }
    let v = b.vec_mat(&z)?;
    let mut out = x.to_vec();
    out.extend(z);
    out.extend(v);
    Ok(out)
}

fn ent(x: f64) -> f64 {
    -x * x.log2() - (1.0 - x) * (1.0 - x).log2()
}
/// fig. 2 row density of A^(n) (n x ceil(alpha n)), before capping at the number of columns:
/// ceil(min(max(1.28 beta n, beta n + 4), (110/n + H(beta) + alpha H(1.28 beta/alpha)) / (beta log2(alpha/(1.28 beta))))).
/// The linear terms are evaluated in exact integer arithmetic, the entropy term in f64 (concrete oracle).
/// (The density d_n of B is not checked against the paper: the library evaluates the formula at B's row count
/// rather than at the level's message length, and without the reference implementation at hand it is not
/// possible to say here which of the two the authors intend.)
pub fn paper_cn(n: usize, alpha: (usize, usize), beta: (usize, usize)) -> usize {
    let lin = core::cmp::max((128 * beta.0 * n + 100 * beta.1 - 1) / (100 * beta.1), (beta.0 * n + beta.1 - 1) / beta.1 + 4);
    let (a, b, nf) = (alpha.0 as f64 / alpha.1 as f64, beta.0 as f64 / beta.1 as f64, n as f64);
    let second = (110.0 / nf + ent(b) + a * ent(1.28 * b / a)) / (b * (a / (1.28 * b)).log2());
    core::cmp::min(lin, second.ceil() as usize)
}
