//! C01/C02 for the schemes with an inherent API: KZG10 and the multilinear PST scheme.
use crate::engine::explore::{assume_ne, sym, sym_nonzero, with_sym_rng, Verdict};
use crate::engine::grp::ToyPairing;
use crate::engine::sf::{RNG_NONZERO, SF};
use crate::schemes::{ML, UP};
use ark_ff::Zero;
use ark_poly::{DenseUVPolynomial, Polynomial};
use ark_poly_commit::kzg10::{Powers, VerifierKey, KZG10};
use ark_poly_commit::multilinear_pc::MultilinearPC;
use ark_std::rand::{rngs::StdRng, SeedableRng};

type K = KZG10<ToyPairing, UP>;

#[derive(Clone, Copy, Debug, PartialEq)]
pub enum Pert {
    None,
    Value,
    Point,
    Twin,
}

pub fn kzg10(max_degree: usize, len: usize, hiding: Option<usize>, pert: Pert, batch: bool, seed: u64) -> Verdict {
    let delta = sym_nonzero("delta");
    let rng = &mut StdRng::seed_from_u64((seed + 5) ^ crate::engine::explore::replay_salt());
    let pp = match K::setup(max_degree, false, rng) {
        Ok(p) => p,
        Err(e) => return Verdict::viol("setup-err", format!("{:?}", e)),
    };
    let powers = Powers { powers_of_g: pp.powers_of_g[..=max_degree].to_vec().into(), powers_of_gamma_g: (0..=max_degree + 1).map(|i| pp.powers_of_gamma_g[&i]).collect::<Vec<_>>().into() };
    let vk = VerifierKey { g: pp.powers_of_g[0], gamma_g: pp.powers_of_gamma_g[&0], h: pp.h, beta_h: pp.beta_h, prepared_h: pp.prepared_h.clone(), prepared_beta_h: pp.prepared_beta_h.clone() };
    let n = if batch { 2 } else { 1 };
    let mut comms = vec![];
    let mut points = vec![];
    let mut values = vec![];
    let mut proofs = vec![];
    RNG_NONZERO.with(|c| c.set(true));
    for i in 0..n {
        let c: Vec<SF> = (0..len).map(|j| sym(&format!("p{}c{}", i, j))).collect();
        let p = UP::from_coefficients_vec(c);
        let z = sym(&format!("z{}", i));
        let (comm, r) = match with_sym_rng(true, || K::commit(&powers, &p, hiding, Some(rng))) {
            Ok(x) => x,
            Err(e) => return Verdict::viol("commit-err", format!("{:?}", e)),
        };
        let proof = match K::open(&powers, &p, z, &r) {
            Ok(x) => x,
            Err(e) => return Verdict::viol("open-err", format!("{:?}", e)),
        };
        comms.push(comm);
        points.push(z);
        values.push(p.evaluate(&z));
        proofs.push(proof);
        if i == n - 1 {
            match pert {
                Pert::None => {}
                Pert::Value | Pert::Twin => values[i] += delta,
                Pert::Point => {
                    points[i] += delta;
                    if !assume_ne(p.evaluate(&points[i]), values[i], "p(z') == p(z)") || !assume_ne(proofs[i].w.0, SF::zero(), "W is the identity") {
                        return Verdict::Hold;
                    }
                }
            }
        }
    }
    let res = if batch {
        K::batch_check(&vk, &comms, &points, &values, &proofs, &mut StdRng::seed_from_u64(seed + 9))
    } else {
        K::check(&vk, &comms[0], points[0], values[0], &proofs[0])
    };
    match (pert, res) {
        (Pert::None, Ok(true)) => Verdict::Hold,
        (Pert::None, r) => Verdict::viol("rejected", format!("honest KZG10 proof not accepted: {:?}", r)),
        (Pert::Twin, Ok(true)) => Verdict::Hold,
        (Pert::Twin, _) => Verdict::viol("twin", "twin"),
        (_, Ok(true)) => Verdict::viol("accepted-false-statement", format!("{:?}: KZG10 verifier accepted the changed statement", pert)),
        _ => Verdict::Hold,
    }
}

pub fn mlpst(nv: usize, pert: Pert, seed: u64) -> Verdict {
    let delta = sym_nonzero("delta");
    let rng = &mut StdRng::seed_from_u64((seed + 5) ^ crate::engine::explore::replay_salt());
    let pp = MultilinearPC::<ToyPairing>::setup(nv, rng);
    let (ck, vk) = MultilinearPC::<ToyPairing>::trim(&pp, nv);
    let e: Vec<SF> = (0..1 << nv).map(|j| sym(&format!("e{}", j))).collect();
    let p = ML::from_evaluations_vec(nv, e);
    let mut pt: Vec<SF> = (0..nv).map(|j| sym(&format!("z{}", j))).collect();
    let com = MultilinearPC::commit(&ck, &p);
    let proof = MultilinearPC::open(&ck, &p, &pt);
    let mut v = p.evaluate(&pt);
    match pert {
        Pert::None => {}
        Pert::Value | Pert::Twin => v += delta,
        Pert::Point => {
            pt[nv - 1] += delta;
            if !assume_ne(p.evaluate(&pt), v, "p(z') == p(z)") {
                return Verdict::Hold;
            }
            // the quotient commitment for the changed variable must be non-trivial
            let t = crate::drivers::common::terms_of(&proof);
            if let Some(q) = t.get(nv - 1) {
                if !assume_ne(*q, SF::zero(), "quotient commitment is the identity") {
                    return Verdict::Hold;
                }
            }
        }
    }
    let ok = MultilinearPC::check(&vk, &com, &pt, v, &proof);
    match (pert, ok) {
        (Pert::None, true) => Verdict::Hold,
        (Pert::None, false) => Verdict::viol("rejected", "honest multilinear PST proof rejected"),
        (Pert::Twin, true) => Verdict::Hold,
        (Pert::Twin, false) => Verdict::viol("twin", "twin"),
        (_, true) => Verdict::viol("accepted-false-statement", format!("{:?}: multilinear PST verifier accepted the changed statement", pert)),
        _ => Verdict::Hold,
    }
}
