//! C15: PST13 parameters cover every monomial; any multivariate polynomial opens.
use super::common::*;
use crate::engine::explore::Verdict;
use crate::engine::grp::ToyPairing;
use crate::engine::sf::SF;
use crate::schemes::*;
use ark_ec::pairing::Pairing;
use ark_poly::multivariate::{SparseTerm, Term};
use ark_poly_commit::marlin_pst13_pc::verif_combinations;
use ark_poly_commit::{PCCommitterKey, PCUniversalParams, PCVerifierKey, PolynomialCommitment};
use ark_std::rand::{rngs::StdRng, SeedableRng};
use std::collections::BTreeSet;

fn expo(nv: usize, t: &SparseTerm) -> Vec<usize> {
    let mut v = vec![0usize; nv];
    for (var, e) in t.iter() {
        v[*var] += *e;
    }
    v
}

/// key set == all exponent vectors of total degree <= D, none missing or duplicated; each element is
/// the generator scaled by that monomial at one common trapdoor (pairing identities); trim keeps
/// exactly the monomials up to the supported degree. Input-free: concrete, not solver-decided.
pub fn keyset(nv: usize, d: usize, seed: u64) -> Verdict {
    let rng = &mut StdRng::seed_from_u64(seed + 31);
    let pp = match Pst13PC::setup(d, Some(nv), rng) {
        Ok(p) => p,
        Err(e) => return Verdict::viol("setup-err", format!("{:?}", e)),
    };
    let want: BTreeSet<Vec<usize>> = monomials(nv, d).iter().map(|m| { let mut v = vec![0usize; nv]; for (x, e) in m { v[*x] += *e; } v }).collect();
    let mut got: BTreeSet<Vec<usize>> = BTreeSet::new();
    for t in pp.powers_of_g.keys() {
        if !got.insert(expo(nv, t)) {
            return Verdict::viol("keyset-duplicate", format!("monomial {:?} occurs twice in the parameters", expo(nv, t)));
        }
    }
    if got != want {
        let missing: Vec<_> = want.difference(&got).take(3).collect();
        let extra: Vec<_> = got.difference(&want).take(3).collect();
        return Verdict::viol("keyset-wrong", format!("({} vars, degree {}): {} elements, expected {}; missing {:?}, unexpected {:?}", nv, d, got.len(), want.len(), missing, extra));
    }
    if pp.max_degree() != d || pp.beta_h.len() != nv || pp.powers_of_gamma_g.len() != nv || pp.powers_of_gamma_g.iter().any(|v| v.len() != d + 1) {
        return Verdict::viol("params-shape", "beta_h / powers_of_gamma_g / max_degree do not match (num_vars, max_degree)");
    }
    // trapdoor consistency: e(G[m * x_i], H) == e(G[m], beta_i H)
    let one = pp.powers_of_g[&SparseTerm::new(vec![])];
    for (t, g) in pp.powers_of_g.iter() {
        let ev = expo(nv, t);
        if ev.iter().sum::<usize>() >= d {
            continue;
        }
        for i in 0..nv {
            let mut up = ev.clone();
            up[i] += 1;
            let key = SparseTerm::new(up.iter().enumerate().filter(|(_, e)| **e > 0).map(|(v, e)| (v, *e)).collect());
            let gu = match pp.powers_of_g.get(&key) {
                Some(x) => *x,
                None => return Verdict::viol("keyset-wrong", format!("no element for monomial {:?}", up)),
            };
            if ToyPairing::pairing(gu, pp.h) != ToyPairing::pairing(*g, pp.beta_h[i]) {
                return Verdict::viol("params-not-powers", format!("G[{:?}] is not beta_{} * G[{:?}]", up, i, ev));
            }
        }
    }
    // gamma powers: powers_of_gamma_g[i][j] = beta_i^(j+1) * gamma_g
    for i in 0..nv {
        let mut prev = pp.gamma_g;
        for j in 0..=d {
            let cur = pp.powers_of_gamma_g[i][j];
            if ToyPairing::pairing(cur, pp.h) != ToyPairing::pairing(prev, pp.beta_h[i]) {
                return Verdict::viol("params-not-powers", format!("powers_of_gamma_g[{}][{}] is not beta_{} times the previous power", i, j, i));
            }
            prev = cur;
        }
    }
    if one.0.v == ark_ff::Zero::zero() {
        return Verdict::viol("params-identity", "the generator is the identity");
    }
    // trim
    for sup in 1..=d {
        let (ck, vk) = match Pst13PC::trim(&pp, sup, 0, None) {
            Ok(k) => k,
            Err(e) => return Verdict::viol("trim-err", format!("{:?}", e)),
        };
        let want: BTreeSet<Vec<usize>> = want.iter().filter(|v| v.iter().sum::<usize>() <= sup).cloned().collect();
        let got: BTreeSet<Vec<usize>> = ck.powers_of_g.keys().map(|t| expo(nv, t)).collect();
        if got != want || ck.powers_of_g.len() != want.len() {
            return Verdict::viol("trim-keyset-wrong", format!("trim to degree {} keeps {} monomials, expected {}", sup, ck.powers_of_g.len(), want.len()));
        }
        for (t, g) in ck.powers_of_g.iter() {
            if pp.powers_of_g[t] != *g {
                return Verdict::viol("trim-element-wrong", "a trimmed element differs from the parameters");
            }
        }
        if ck.supported_degree() != sup || vk.supported_degree() != sup || ck.max_degree() != d || vk.max_degree() != d || vk.g != one || vk.h != pp.h || vk.beta_h != pp.beta_h || vk.gamma_g != pp.gamma_g {
            return Verdict::viol("trim-report", "trimmed keys misreport degrees or generators");
        }
    }
    if Pst13PC::trim(&pp, d + 1, 0, None).is_ok() {
        return Verdict::viol("trim-accepted-out-of-range", "trim accepted supported_degree > max_degree");
    }
    Verdict::Hold
}

/// the crate-private multiset-combination iterator against an independent enumeration
pub fn combinations() -> Verdict {
    fn reference(vals: &[usize], len: usize) -> BTreeSet<Vec<usize>> {
        // all sorted selections of `len` positions, as value multisets
        fn rec(vals: &[usize], start: usize, left: usize, cur: &mut Vec<usize>, out: &mut BTreeSet<Vec<usize>>) {
            if left == 0 {
                out.insert(cur.clone());
                return;
            }
            for i in start..vals.len() {
                cur.push(vals[i]);
                rec(vals, i + 1, left - 1, cur, out);
                cur.pop();
            }
        }
        let mut v = vals.to_vec();
        v.sort();
        let mut out = BTreeSet::new();
        rec(&v, 0, len, &mut vec![], &mut out);
        out
    }
    let lists: Vec<Vec<usize>> = vec![vec![0, 1], vec![0, 0, 1, 1], vec![0, 0, 0, 1, 1, 1, 2, 2, 2], vec![0, 1, 2, 3], vec![2, 2, 0, 1, 1], vec![0, 0, 0, 0], vec![0, 0, 1, 1, 2, 2, 3, 3]];
    for l in &lists {
        for len in 1..l.len() {
            let got = match catch(|| verif_combinations(l.clone(), len)) {
                Ok(g) => g,
                Err(p) => return Verdict::viol("combinations-panic", format!("Combinations::new({:?}, {}) panicked: {}", l, len, p)),
            };
            let set: BTreeSet<Vec<usize>> = got.iter().cloned().collect();
            if set.len() != got.len() {
                return Verdict::viol("combinations-duplicate", format!("Combinations({:?}, {}) yields a multiset twice", l, len));
            }
            if set != reference(l, len) {
                return Verdict::viol("combinations-wrong", format!("Combinations({:?}, {}) yields {} multisets, expected {}", l, len, set.len(), reference(l, len).len()));
            }
        }
    }
    let _ = SF::from(0u8);
    let _ = |w: &World<Pst13>| w.cfg.seed;
    Verdict::Hold
}
