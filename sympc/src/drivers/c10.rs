//! C10: each verifier decides exactly the scheme's published verification relation.
//! The reference relations below are written from the papers (DESIGN.md appendix B) over the shadow
//! algebra, take their challenges from the same random oracle / sponge state, and are compared with
//! the library verifier's decision on honest transcripts in which one verifier-visible component has
//! been replaced by a fresh symbolic element of the same type.
use super::common::*;
use crate::engine::explore::{sym, Verdict};
use crate::engine::grp::{ToyPairing, TA};
use crate::engine::ro::{RoColHash, RoDigest, RoLeafHash, RoMT, RoTwoToOne, SymDigest};
use crate::engine::sf::SF;
use crate::engine::sponge::RoSponge;
use crate::schemes::*;
use ark_crypto_primitives::crh::{CRHScheme, TwoToOneCRHScheme};
use ark_crypto_primitives::sponge::CryptographicSponge;
use ark_ff::{FftField, Field, One, Zero};
use ark_poly_commit::linear_codes::LinCodePCProof;
use ark_poly_commit::{kzg10, LabeledCommitment, PolynomialCommitment, CHALLENGE_SIZE};
use ark_serialize::CanonicalSerialize;
use digest::Digest;

fn ch(sp: &mut RoSponge) -> SF {
    sp.squeeze_field_elements_with_sizes(&[CHALLENGE_SIZE])[0]
}
fn decide(lib: Result<Result<bool, String>, String>, reference: bool, what: &str) -> Verdict {
    let l = matches!(lib, Ok(Ok(true)));
    if l == reference {
        Verdict::Hold
    } else if l {
        Verdict::viol("library-accepts-reference-rejects", format!("{}: the library verifier accepts where the reference relation does not hold", what))
    } else {
        Verdict::viol("library-rejects-reference-accepts", format!("{}: the library verifier does not accept ({:?}) where the reference relation holds", what, lib))
    }
}

// ---------------------------------------------------------------- Marlin / Sonic / PST13
pub fn marlin(cfg: &Cfg, which: usize) -> Verdict {
    let mut w = match catch(|| build::<Marlin>(cfg)) {
        Ok(Ok(w)) => w,
        _ => return Verdict::Discard("honest phase failed".into()),
    };
    let sp0 = sponge(cfg, 1);
    let (mut sp_p, mut sp_l, mut sp_r) = (sp0.clone(), sp0.clone(), sp0.clone());
    let idx = w.at_point(0);
    let mut proof = match catch(|| w.open(&idx, 0, &mut sp_p)) {
        Ok(Ok(p)) => p,
        _ => return Verdict::Discard("honest phase failed".into()),
    };
    let mut pt = w.points[0].1;
    let mut vals: Vec<SF> = idx.iter().map(|i| w.lps[*i].evaluate(&pt)).collect();
    let x = sym("x");
    let names = ["honest", "comm", "shifted_comm", "value", "point", "w", "random_v", "vk.g", "vk.gamma_g", "vk.h", "vk.beta_h", "shift_power"];
    {
        let c0 = w.comms[idx[0]].clone();
        let mut cm = c0.commitment().clone();
        match which {
            1 => cm.comm = kzg10::Commitment(TA(x)),
            2 => { if cm.shifted_comm.is_some() { cm.shifted_comm = Some(kzg10::Commitment(TA(x))) } else { return Verdict::Hold } }
            3 => vals[0] = x,
            4 => pt = x,
            5 => proof.w = TA(x),
            6 => { if proof.random_v.is_some() { proof.random_v = Some(x) } else { return Verdict::Hold } }
            7 => w.vk.vk.g = TA(x),
            8 => w.vk.vk.gamma_g = TA(x),
            9 => { w.vk.vk.h = TA(x); w.vk.vk.prepared_h = TA(x); }
            10 => { w.vk.vk.beta_h = TA(x); w.vk.vk.prepared_beta_h = TA(x); }
            11 => match w.vk.degree_bounds_and_shift_powers.as_mut() { Some(v) if !v.is_empty() => v[0].1 = TA(x), _ => return Verdict::Hold },
            _ => {}
        }
        w.comms[idx[0]] = LabeledCommitment::new(c0.label().clone(), cm, c0.degree_bound());
    }
    // reference relation
    let vk = w.vk.clone();
    let mut cstar = SF::zero();
    let mut vstar = SF::zero();
    let mut ok = true;
    for (k, i) in idx.iter().enumerate() {
        let c = w.comms[*i].commitment();
        let xi = ch(&mut sp_r);
        cstar += xi * c.comm.0 .0;
        vstar += xi * vals[k];
        if let Some(d) = w.comms[*i].degree_bound() {
            let xi1 = ch(&mut sp_r);
            let shift = vk.degree_bounds_and_shift_powers.as_ref().and_then(|v| v.iter().find(|(b, _)| *b == d)).map(|x| x.1 .0);
            match (shift, c.shifted_comm) {
                (Some(s), Some(sc)) => cstar += xi1 * (sc.0 .0 - vals[k] * s),
                _ => ok = false,
            }
        }
    }
    let rho = proof.random_v.unwrap_or(SF::zero());
    let lhs = (cstar - vstar * vk.vk.g.0 - rho * vk.vk.gamma_g.0) * vk.vk.h.0;
    let rhs = proof.w.0 * (vk.vk.beta_h.0 - pt * vk.vk.h.0);
    let reference = ok && lhs == rhs;
    let lib = catch(|| w.check(&idx, &pt, vals.clone(), &proof, &mut sp_l));
    decide(lib, reference, &format!("marlin, replaced component: {}", names[which.min(11)]))
}

pub fn sonic(cfg: &Cfg, which: usize) -> Verdict {
    let mut w = match catch(|| build::<Sonic>(cfg)) {
        Ok(Ok(w)) => w,
        _ => return Verdict::Discard("honest phase failed".into()),
    };
    let sp0 = sponge(cfg, 1);
    let (mut sp_p, mut sp_l, mut sp_r) = (sp0.clone(), sp0.clone(), sp0.clone());
    let idx = w.at_point(0);
    let mut proof = match catch(|| w.open(&idx, 0, &mut sp_p)) {
        Ok(Ok(p)) => p,
        _ => return Verdict::Discard("honest phase failed".into()),
    };
    let mut pt = w.points[0].1;
    let mut vals: Vec<SF> = idx.iter().map(|i| w.lps[*i].evaluate(&pt)).collect();
    let x = sym("x");
    let names = ["honest", "comm", "value", "point", "w", "random_v", "vk.g", "vk.gamma_g", "vk.h", "vk.beta_h", "neg_power_of_h"];
    match which {
        1 => { let c0 = w.comms[idx[0]].clone(); w.comms[idx[0]] = LabeledCommitment::new(c0.label().clone(), kzg10::Commitment(TA(x)), c0.degree_bound()); }
        2 => vals[0] = x,
        3 => pt = x,
        4 => proof.w = TA(x),
        5 => { if proof.random_v.is_some() { proof.random_v = Some(x) } else { return Verdict::Hold } }
        6 => w.vk.g = TA(x),
        7 => w.vk.gamma_g = TA(x),
        8 => { w.vk.h = TA(x); w.vk.prepared_h = TA(x); }
        9 => { w.vk.beta_h = TA(x); w.vk.prepared_beta_h = TA(x); }
        10 => match w.vk.degree_bounds_and_neg_powers_of_h.as_mut() { Some(v) if !v.is_empty() => v[0].1 = TA(x), _ => return Verdict::Hold },
        // the degree-bound label replaced by the next smaller value (not enforced when the configuration leaves a gap)
        11 => { let c0 = w.comms[idx[0]].clone(); match c0.degree_bound() { Some(d) if d >= 2 => w.comms[idx[0]] = LabeledCommitment::new(c0.label().clone(), c0.commitment().clone(), Some(d - 1)), _ => return Verdict::Hold } }
        _ => {}
    }
    let names = [&names[..], &["degree-bound label"]].concat();
    let vk = w.vk.clone();
    // reference: xi_0 first, xi_{i+1} after polynomial i
    let mut acc: Vec<(Option<usize>, SF)> = vec![];
    let mut vstar = SF::zero();
    let mut xi = ch(&mut sp_r);
    for (k, i) in idx.iter().enumerate() {
        let c = w.comms[*i].commitment();
        let d = w.comms[*i].degree_bound();
        vstar += xi * vals[k];
        match acc.iter_mut().find(|(b, _)| *b == d) {
            Some(e) => e.1 += xi * c.0 .0,
            None => acc.push((d, xi * c.0 .0)),
        }
        xi = ch(&mut sp_r);
    }
    let mut ok = true;
    let mut total = SF::zero();
    for (d, a) in &acc {
        let s = match d {
            None => Some(vk.h.0),
            Some(d) => vk.degree_bounds_and_neg_powers_of_h.as_ref().and_then(|v| v.iter().find(|(b, _)| b == d)).map(|x| x.1 .0),
        };
        match s {
            Some(s) => total += *a * s,
            None => ok = false,
        }
    }
    let rho = proof.random_v.unwrap_or(SF::zero());
    total -= (vstar * vk.g.0 - pt * proof.w.0 + rho * vk.gamma_g.0) * vk.h.0;
    total -= proof.w.0 * vk.beta_h.0;
    let reference = ok && total == SF::zero();
    let lib = catch(|| w.check(&idx, &pt, vals.clone(), &proof, &mut sp_l));
    decide(lib, reference, &format!("sonic, replaced component: {}", names[which.min(11)]))
}

pub fn pst13(cfg: &Cfg, which: usize) -> Verdict {
    let mut w = match catch(|| build::<Pst13>(cfg)) {
        Ok(Ok(w)) => w,
        _ => return Verdict::Discard("honest phase failed".into()),
    };
    let sp0 = sponge(cfg, 1);
    let (mut sp_p, mut sp_l, mut sp_r) = (sp0.clone(), sp0.clone(), sp0.clone());
    let idx = w.at_point(0);
    let mut proof = match catch(|| w.open(&idx, 0, &mut sp_p)) {
        Ok(Ok(p)) => p,
        _ => return Verdict::Discard("honest phase failed".into()),
    };
    let mut pt = w.points[0].1.clone();
    let mut vals: Vec<SF> = idx.iter().map(|i| w.lps[*i].evaluate(&pt)).collect();
    let x = sym("x");
    let names = ["honest", "comm", "value", "point[0]", "point[last]", "w[0]", "w[last]", "random_v", "vk.g", "vk.gamma_g", "vk.h", "vk.beta_h[last]"];
    let nv = cfg.sz.num_vars;
    match which {
        1 => { let c0 = w.comms[idx[0]].clone(); let mut cm = c0.commitment().clone(); cm.comm = kzg10::Commitment(TA(x)); w.comms[idx[0]] = LabeledCommitment::new(c0.label().clone(), cm, None); }
        2 => vals[0] = x,
        3 => pt[0] = x,
        4 => pt[nv - 1] = x,
        5 => proof.w[0] = TA(x),
        6 => proof.w[nv - 1] = TA(x),
        7 => { if proof.random_v.is_some() { proof.random_v = Some(x) } else { return Verdict::Hold } }
        8 => w.vk.g = TA(x),
        9 => w.vk.gamma_g = TA(x),
        10 => { w.vk.h = TA(x); w.vk.prepared_h = TA(x); }
        11 => { w.vk.beta_h[nv - 1] = TA(x); w.vk.prepared_beta_h[nv - 1] = TA(x); }
        _ => {}
    }
    let vk = w.vk.clone();
    let mut cstar = SF::zero();
    let mut vstar = SF::zero();
    for (k, i) in idx.iter().enumerate() {
        let xi = ch(&mut sp_r);
        cstar += xi * w.comms[*i].commitment().comm.0 .0;
        vstar += xi * vals[k];
    }
    let rho = proof.random_v.unwrap_or(SF::zero());
    let lhs = (cstar - vstar * vk.g.0 - rho * vk.gamma_g.0) * vk.h.0;
    let mut rhs = SF::zero();
    let ok = proof.w.len() == nv;
    for j in 0..proof.w.len().min(nv) {
        rhs += proof.w[j].0 * (vk.beta_h[j].0 - pt[j] * vk.h.0);
    }
    let reference = ok && lhs == rhs;
    let lib = catch(|| w.check(&idx, &pt, vals.clone(), &proof, &mut sp_l));
    decide(lib, reference, &format!("pst13, replaced component: {}", names[which.min(11)]))
}

// ---------------------------------------------------------------- IPA
fn ro_digest_challenge(parts: &[&dyn Fn(&mut Vec<u8>)]) -> SF {
    let mut bytes = vec![];
    for p in parts {
        p(&mut bytes);
    }
    let mut i = 0u64;
    loop {
        let mut input = bytes.clone();
        input.extend(i.to_le_bytes());
        let hash = RoDigest::digest(&input);
        if let Some(c) = <SF as Field>::from_random_bytes(&hash) {
            return c;
        }
        i += 1;
        // re-log the serializations for the retry (the library re-hashes the same bytes)
        let mut again = vec![];
        for p in parts {
            p(&mut again);
        }
    }
}

pub fn ipa(cfg: &Cfg, which: usize) -> Verdict {
    let mut w = match catch(|| build::<Ipa>(cfg)) {
        Ok(Ok(w)) => w,
        _ => return Verdict::Discard("honest phase failed".into()),
    };
    let sp0 = sponge(cfg, 1);
    let (mut sp_p, mut sp_l, mut sp_r) = (sp0.clone(), sp0.clone(), sp0.clone());
    let idx = w.at_point(0);
    let mut proof = match catch(|| w.open(&idx, 0, &mut sp_p)) {
        Ok(Ok(p)) => p,
        _ => return Verdict::Discard("honest phase failed".into()),
    };
    let mut pt = w.points[0].1;
    let mut vals: Vec<SF> = idx.iter().map(|i| w.lps[*i].evaluate(&pt)).collect();
    let x = sym("x");
    let names = ["honest", "comm", "shifted_comm", "value", "point", "l_vec[0]", "r_vec[last]", "final_comm_key", "c", "hiding_comm", "rand", "vk.h", "vk.s", "vk.comm_key[1]", "drop-last-round", "extra-round"];
    {
        let c0 = w.comms[idx[0]].clone();
        let mut cm = c0.commitment().clone();
        match which {
            1 => cm.comm = TA(x),
            2 => { if cm.shifted_comm.is_some() { cm.shifted_comm = Some(TA(x)) } else { return Verdict::Hold } }
            3 => vals[0] = x,
            4 => pt = x,
            5 => proof.l_vec[0] = TA(x),
            6 => { let n = proof.r_vec.len(); proof.r_vec[n - 1] = TA(x) }
            7 => proof.final_comm_key = TA(x),
            8 => proof.c = x,
            9 => { if proof.hiding_comm.is_some() { proof.hiding_comm = Some(TA(x)) } else { return Verdict::Hold } }
            10 => { if proof.rand.is_some() { proof.rand = Some(x) } else { return Verdict::Hold } }
            11 => w.vk.h = TA(x),
            12 => w.vk.s = TA(x),
            13 => w.vk.comm_key[1] = TA(x),
            14 => { proof.l_vec.pop(); proof.r_vec.pop(); }
            15 => { proof.l_vec.push(TA(x)); proof.r_vec.push(TA(x)); }
            _ => {}
        }
        w.comms[idx[0]] = LabeledCommitment::new(c0.label().clone(), cm, c0.degree_bound());
    }
    let vk = w.vk.clone();
    let d = vk.comm_key.len() - 1;
    let log_d = ark_std::log2(d + 1) as usize;
    // combined commitment and value
    let mut cstar = SF::zero();
    let mut vstar = SF::zero();
    let mut xi = ch(&mut sp_r);
    let mut ok = true;
    for (k, i) in idx.iter().enumerate() {
        let c = w.comms[*i].commitment();
        vstar += xi * vals[k];
        cstar += xi * c.comm.0;
        xi = ch(&mut sp_r);
        match (w.comms[*i].degree_bound(), c.shifted_comm) {
            (Some(b), Some(sc)) => {
                let shift = pt.pow([(d - b) as u64]);
                vstar += xi * vals[k] * shift;
                cstar += xi * sc.0;
            }
            (None, None) => {}
            _ => ok = false,
        }
        xi = ch(&mut sp_r);
    }
    if proof.hiding_comm.is_some() != proof.rand.is_some() {
        ok = false;
    }
    let ser = |e: SF| move |b: &mut Vec<u8>| { e.serialize_uncompressed(b).unwrap(); };
    // group elements (given by their exponent) in the toy group's uncompressed form
    let serg = |e: SF| move |b: &mut Vec<u8>| { TA::<1>(e).serialize_uncompressed(b).unwrap(); };
    if let (Some(hc), Some(r)) = (proof.hiding_comm, proof.rand) {
        let alpha = ro_digest_challenge(&[&serg(cstar), &ser(pt), &ser(vstar), &serg(hc.0)]);
        cstar += alpha * hc.0 - r * vk.s.0;
    }
    let mut u = ro_digest_challenge(&[&serg(cstar), &ser(pt), &ser(vstar)]);
    let hprime = u * vk.h.0;
    let mut cur = cstar + vstar * hprime;
    let mut us = vec![];
    if proof.l_vec.len() != log_d || proof.r_vec.len() != log_d {
        ok = false;
    }
    for (l, r) in proof.l_vec.iter().zip(proof.r_vec.iter()) {
        u = ro_digest_challenge(&[&ser(u), &serg(l.0), &serg(r.0)]);
        us.push(u);
        match u.inverse() {
            Some(ui) => cur += ui * l.0 + u * r.0,
            None => ok = false,
        }
    }
    // h(X) = prod_k (1 + u_k X^(2^(log_d - k))), k = 1..log_d
    let n = us.len();
    let mut hz = SF::one();
    let mut coeffs = vec![SF::one()];
    for (k, uk) in us.iter().enumerate() {
        let e = 1u64 << (n - 1 - k);
        hz *= SF::one() + *uk * pt.pow([e]);
        // coefficient vector of the product so far times (1 + u_k X^e)
        let mut next = vec![SF::zero(); coeffs.len() + e as usize];
        for (j, cj) in coeffs.iter().enumerate() {
            next[j] += *cj;
            next[j + e as usize] += *cj * *uk;
        }
        coeffs = next;
    }
    let accept1 = cur == proof.c * proof.final_comm_key.0 + proof.c * hz * hprime;
    let mut key = SF::zero();
    for (cj, g) in coeffs.iter().zip(vk.comm_key.iter()) {
        key += *cj * g.0;
    }
    let accept2 = coeffs.len() == vk.comm_key.len() && proof.final_comm_key.0 == key;
    let reference = ok && accept1 && accept2;
    let lib = catch(|| w.check(&idx, &pt, vals.clone(), &proof, &mut sp_l));
    decide(lib, reference, &format!("ipa, replaced component: {}", names[which.min(15)]))
}

// ---------------------------------------------------------------- Hyrax (dot-product argument part)
fn tensor_prime(v: &[SF]) -> Vec<SF> {
    if v.is_empty() {
        return vec![SF::one()];
    }
    let tail = tensor_prime(&v[1..]);
    let mut out: Vec<SF> = tail.iter().map(|t| *t * (SF::one() - v[0])).collect();
    out.extend(tail.iter().map(|t| *t * v[0]));
    out
}

pub fn hyrax(cfg: &Cfg, which: usize) -> Verdict {
    let mut w = match catch(|| build::<Hyrax>(cfg)) {
        Ok(Ok(w)) => w,
        _ => return Verdict::Discard("honest phase failed".into()),
    };
    let sp0 = sponge(cfg, 1);
    let (mut sp_p, mut sp_l, mut sp_r) = (sp0.clone(), sp0.clone(), sp0.clone());
    let mut proof = match catch(|| w.open(&[0], 0, &mut sp_p)) {
        Ok(Ok(p)) => p,
        _ => return Verdict::Discard("honest phase failed".into()),
    };
    let mut pt = w.points[0].1.clone();
    let vals: Vec<SF> = vec![w.lps[0].evaluate(&pt)];
    let x = sym("x");
    let names = ["honest", "row_coms[0]", "point[0]", "com_eval", "com_d", "com_b", "z[0]", "z_d", "z_b", "vk.h", "vk.com_key[0]", "vk.com_key[1]"];
    let n = pt.len();
    {
        let c0 = w.comms[0].clone();
        let mut cm = c0.commitment().clone();
        match which {
            1 => cm.row_coms[0] = TA(x),
            2 => pt[0] = x,
            3 => proof[0].com_eval = TA(x),
            4 => proof[0].com_d = TA(x),
            5 => proof[0].com_b = TA(x),
            6 => proof[0].z[0] = x,
            7 => proof[0].z_d = x,
            8 => proof[0].z_b = x,
            9 => w.vk.h = TA(x),
            10 => w.vk.com_key[0] = TA(x),
            11 => w.vk.com_key[1] = TA(x),
            _ => {}
        }
        w.comms[0] = LabeledCommitment::new(c0.label().clone(), cm, c0.degree_bound());
    }
    let vk = w.vk.clone();
    let pr = &proof[0];
    let rows = &w.comms[0].commitment().row_coms;
    let mut b = vec![];
    vk.serialize_uncompressed(&mut b).unwrap();
    sp_r.absorb(&b);
    let mut b = vec![];
    rows.serialize_uncompressed(&mut b).unwrap();
    sp_r.absorb(&b);
    sp_r.absorb(&pt);
    for g in [pr.com_eval, pr.com_d, pr.com_b] {
        let mut b = vec![];
        g.serialize_uncompressed(&mut b).unwrap();
        sp_r.absorb(&b);
    }
    let c: SF = sp_r.squeeze_field_elements(1)[0];
    let rev: Vec<SF> = pt.iter().rev().cloned().collect();
    let l = tensor_prime(&rev[n / 2..]);
    let r = tensor_prime(&rev[..n / 2]);
    let dim = 1usize << (n / 2);
    let ok = rows.len() == dim && pr.z.len() == dim;
    let mut tprime = SF::zero();
    for (li, ri) in l.iter().zip(rows.iter()) {
        tprime += *li * ri.0;
    }
    let mut com_z = pr.z_d * vk.h.0;
    for (zj, g) in pr.z.iter().zip(vk.com_key.iter()) {
        com_z += *zj * g.0;
    }
    let eq13 = com_z == c * tprime + pr.com_d.0;
    let mut rz = SF::zero();
    for (ri, zi) in r.iter().zip(pr.z.iter()) {
        rz += *ri * *zi;
    }
    let eq14 = rz * vk.com_key[0].0 + pr.z_b * vk.h.0 == c * pr.com_eval.0 + pr.com_b.0;
    let reference = ok && eq13 && eq14;
    let lib = catch(|| w.check(&[0], &pt, vals.clone(), &proof, &mut sp_l));
    decide(lib, reference, &format!("hyrax (equations 13, 14), replaced component: {}", names[which.min(11)]))
}

// ---------------------------------------------------------------- Ligero (univariate / multilinear)
fn path_root(path: &ark_crypto_primitives::merkle_tree::Path<RoMT>, leaf: SymDigest) -> SymDigest {
    let lh = RoLeafHash::evaluate(&(), leaf).unwrap();
    let mut index = path.leaf_index;
    let (l, r) = if index & 1 == 0 { (lh, path.leaf_sibling_hash) } else { (path.leaf_sibling_hash, lh) };
    let mut cur = RoTwoToOne::evaluate(&(), l, r).unwrap();
    index >>= 1;
    for level in (0..path.auth_path.len()).rev() {
        let sib = path.auth_path[level];
        let (l, r) = if index & 1 == 0 { (cur, sib) } else { (sib, cur) };
        cur = RoTwoToOne::evaluate(&(), l, r).unwrap();
        index >>= 1;
    }
    cur
}
fn rs_encode(msg: &[SF], rho_inv: usize) -> Vec<SF> {
    let dom = (msg.len() * rho_inv).next_power_of_two();
    let omega = SF::get_root_of_unity(dom as u64).unwrap();
    let mut out = vec![];
    let mut xk = SF::one();
    for _ in 0..dom {
        let mut acc = SF::zero();
        for c in msg.iter().rev() {
            acc = acc * xk + *c;
        }
        out.push(acc);
        xk *= omega;
    }
    out
}

pub fn ligero<S: Sch>(cfg: &Cfg, which: usize, univariate: bool) -> Verdict
where
    S::PC: PolynomialCommitment<SF, S::P, Proof = Vec<LinCodePCProof<SF, RoMT>>, VerifierKey = ark_poly_commit::linear_codes::LigeroPCParams<SF, RoMT, RoColHash>>,
    CommOf<S>: super::c08::LinCommParts,
{
    lincode_generic::<S>(cfg, which, univariate, false)
}

/// Brakedown: the same relation with the code of `bdref` (the paper's recursive encoder over the matrices in
/// the verifier key), distance beta/r, security parameter and well-formedness flag read from the key.
pub fn brakedown<S: Sch>(cfg: &Cfg, which: usize) -> Verdict
where
    S::PC: PolynomialCommitment<SF, S::P, Proof = Vec<LinCodePCProof<SF, RoMT>>, VerifierKey = ark_poly_commit::linear_codes::BrakedownPCParams<SF, RoMT, RoColHash>>,
    CommOf<S>: super::c08::LinCommParts,
{
    lincode_generic::<S>(cfg, which, false, true)
}

fn lincode_generic<S: Sch>(cfg: &Cfg, which: usize, univariate: bool, bd: bool) -> Verdict
where
    S::PC: PolynomialCommitment<SF, S::P, Proof = Vec<LinCodePCProof<SF, RoMT>>>,
    VkOf<S>: ark_serialize::CanonicalSerialize,
    CommOf<S>: super::c08::LinCommParts,
{
    use super::c08::LinCommParts;
    let mut w = match catch(|| build::<S>(cfg)) {
        Ok(Ok(w)) => w,
        _ => return Verdict::Discard("honest phase failed".into()),
    };
    let sp0 = sponge(cfg, 1);
    let (mut sp_p, mut sp_l, mut sp_r) = (sp0.clone(), sp0.clone(), sp0.clone());
    // every polynomial of the configuration is opened in one call; the replaced component belongs to the last one
    let np = w.lps.len();
    let idx: Vec<usize> = (0..np).collect();
    let tgt = np - 1;
    let mut proof: Vec<LinCodePCProof<SF, RoMT>> = match catch(|| w.open(&idx, 0, &mut sp_p)) {
        Ok(Ok(p)) => p,
        _ => return Verdict::Discard("honest phase failed".into()),
    };
    let mut pt = w.points[0].1.clone();
    let mut vals: Vec<SF> = idx.iter().map(|i| w.lps[*i].evaluate(&pt)).collect();
    let x = sym("x");
    let names = ["honest", "value", "point[0]", "v[0]", "v[last]", "columns[0][0]", "columns[last][last]", "well_formedness[0]", "path[0].leaf_sibling", "path[0].auth_path[0]", "drop-last-column+path", "v-extended", "path[last].leaf_sibling", "path[first repeated index].leaf_sibling"];
    {
        let (paths, pv, cols, wf) = proof[tgt].verif_parts_mut();
        match which {
            1 => vals[tgt] = x,
            2 => { let mut c = S::point_coords(&pt); c[0] = x; pt = S::point(&cfg.sz, c); }
            3 => pv[0] = x,
            4 => { let n = pv.len(); pv[n - 1] = x }
            5 => cols[0][0] = x,
            6 => { let n = cols.len(); let m = cols[n - 1].len(); cols[n - 1][m - 1] = x }
            7 => match wf.as_mut() { Some(v) => v[0] = x, None => return Verdict::Hold },
            8 => paths[0].leaf_sibling_hash = SymDigest(x),
            9 => { if paths[0].auth_path.is_empty() { return Verdict::Hold } paths[0].auth_path[0] = SymDigest(x) }
            10 => { cols.pop(); paths.pop(); }
            11 => pv.push(x),
            12 => { let n = paths.len(); paths[n - 1].leaf_sibling_hash = SymDigest(x) }
            // the path at the first position whose leaf index already occurred at an earlier position
            13 => {
                let pos = (1..paths.len()).find(|j| (0..*j).any(|i| paths[i].leaf_index == paths[*j].leaf_index));
                match pos {
                    Some(j) => paths[j].leaf_sibling_hash = SymDigest(x),
                    None => return Verdict::Hold,
                }
            }
            _ => {}
        }
    }
    // reference relation
    let (mut sec, rho_inv, mut wf_required) = cfg.sz.ligero;
    let mut distance = (rho_inv - 1, rho_inv);
    let bdp = if bd {
        match super::bdref::mirror(&w.vk) {
            Ok(p) => {
                sec = p.sec_param;
                wf_required = p.check_well_formedness;
                distance = (p.beta.0 * p.rho_inv.1, p.beta.1 * p.rho_inv.0);
                Some(p)
            }
            Err(e) => return Verdict::Discard(format!("driver: {}", e)),
        }
    } else {
        None
    };
    let encode = |m: &[SF]| -> Vec<SF> {
        match &bdp {
            Some(p) => super::bdref::encode_ref(p, m, 0).unwrap_or_default(),
            None => rs_encode(m, rho_inv),
        }
    };
    let mut ok = true;
    for pi in 0..np {
    if !ok {
        break;
    }
    let (n_rows, n_cols, n_ext, root) = w.comms[pi].commitment().parts();
    let val = vals[pi];
    let t = match ark_poly_commit::linear_codes::verif_hooks::calculate_t::<SF>(sec, distance, n_ext) {
        Ok(t) => t,
        Err(_) => return Verdict::Discard("calculate_t failed".into()),
    };
    let (paths, pv, cols, wf) = proof[pi].verif_parts();
    let mut b = vec![];
    root.serialize_compressed(&mut b).unwrap();
    sp_r.absorb(&b);
    let mut r: Vec<SF> = vec![];
    if wf_required {
        match wf {
            Some(v) => {
                r = sp_r.squeeze_field_elements::<SF>(n_rows);
                sp_r.absorb(v);
            }
            None => ok = false,
        }
    }
    let coords = S::point_coords(&pt);
    sp_r.absorb(&coords);
    sp_r.absorb(pv);
    let indices = ark_poly_commit::linear_codes::verif_hooks::get_indices_from_sponge(n_ext, t, &mut sp_r).unwrap();
    ok &= cols.len() == t && paths.len() == t && pv.len() == n_cols && cols.iter().all(|c| c.len() == n_rows);
    if let Some(v) = wf {
        ok &= !wf_required || v.len() == n_cols;
    }
    // tensor of the point
    let (a, bvec): (Vec<SF>, Vec<SF>) = if univariate {
        let z = coords[0];
        let mut a = vec![];
        let mut p = SF::one();
        for _ in 0..n_cols {
            a.push(p);
            p *= z;
        }
        let mut bb = vec![];
        let mut q = SF::one();
        for _ in 0..n_rows {
            bb.push(q);
            q *= p;
        }
        (a, bb)
    } else {
        // multilinear: evaluations index = col + n_cols*row with little-endian variables: the low log(n_cols)
        // variables select the column, the high ones the row; eq-tensor of each half
        let lc = n_cols.trailing_zeros() as usize;
        let eq = |zs: &[SF]| -> Vec<SF> {
            let mut out = vec![SF::one()];
            for z in zs {
                let mut nxt = Vec::with_capacity(out.len() * 2);
                for o in &out { nxt.push(*o * (SF::one() - *z)); }
                for o in &out { nxt.push(*o * *z); }
                out = nxt;
            }
            out
        };
        (eq(&coords[..lc]), eq(&coords[lc..]))
    };
    if ok {
        let wv = encode(pv);
        let wwf = wf.as_ref().filter(|_| wf_required).map(|v| encode(v));
        ok &= wv.len() == n_ext && wwf.as_ref().map_or(true, |x| x.len() == n_ext);
        for j in 0..if ok { t } else { 0 } {
            let q = indices[j];
            if paths[j].leaf_index != q {
                ok = false;
                break;
            }
            let leaf = RoColHash::evaluate(&(), cols[j].clone()).unwrap();
            if path_root(&paths[j], leaf) != root {
                ok = false;
                break;
            }
            if let Some(wwf) = &wwf {
                let ip: SF = r.iter().zip(cols[j].iter()).map(|(x, y)| *x * *y).sum();
                if ip != wwf[q] {
                    ok = false;
                    break;
                }
            }
            let ip: SF = bvec.iter().zip(cols[j].iter()).map(|(x, y)| *x * *y).sum();
            if ip != wv[q] {
                ok = false;
                break;
            }
        }
    }
    if ok {
        let ip: SF = pv.iter().zip(a.iter()).map(|(x, y)| *x * *y).sum();
        ok = ip == val;
    }
    }
    let lib = catch(|| w.check(&idx, &pt, vals.clone(), &proof, &mut sp_l));
    decide(lib, ok, &format!("{}, replaced component: {}", S::NAME, names[which.min(13)]))
}

// ---------------------------------------------------------------- inherent APIs: KZG10, multilinear PST, streaming KZG
/// KZG10::check and KZG10::batch_check against e(C - vG - rho*gammaG, H) = e(W, betaH - zH)
/// (batch: the r-weighted sum over the proofs with r_1 = 1 and r_i drawn from the verifier tape)
pub fn kzg10(which: usize, batch: bool, seed: u64) -> Verdict {
    use ark_poly::{DenseUVPolynomial, Polynomial};
    use ark_poly_commit::kzg10::{Powers, VerifierKey, KZG10};
    use ark_std::rand::{rngs::StdRng, SeedableRng};
    use ark_ff::UniformRand;
    type K = KZG10<ToyPairing, UP>;
    let rng = &mut StdRng::seed_from_u64((seed + 5) ^ crate::engine::explore::replay_salt());
    let pp = match K::setup(3, false, rng) {
        Ok(p) => p,
        Err(_) => return Verdict::Discard("setup failed".into()),
    };
    let powers = Powers { powers_of_g: pp.powers_of_g[..=3].to_vec().into(), powers_of_gamma_g: (0..=4).map(|i| pp.powers_of_gamma_g[&i]).collect::<Vec<_>>().into() };
    let mut vk = VerifierKey { g: pp.powers_of_g[0], gamma_g: pp.powers_of_gamma_g[&0], h: pp.h, beta_h: pp.beta_h, prepared_h: pp.prepared_h.clone(), prepared_beta_h: pp.prepared_beta_h.clone() };
    crate::engine::sf::RNG_NONZERO.with(|c| c.set(true));
    let n = if batch { 2 } else { 1 };
    let (mut comms, mut pts, mut vals, mut proofs) = (vec![], vec![], vec![], vec![]);
    for i in 0..n {
        // batch shapes: non-zero leading coefficients (the degenerate lengths are covered by the single-proof shapes)
        let c: Vec<SF> = (0..2).map(|j| if batch && j == 1 { crate::engine::explore::sym_nonzero(&format!("p{}c{}", i, j)) } else { sym(&format!("p{}c{}", i, j)) }).collect();
        let p = UP::from_coefficients_vec(c);
        let z = sym(&format!("z{}", i));
        let hid = if i == 0 { Some(1) } else { None };
        let (cm, r) = match crate::engine::explore::with_sym_rng(true, || K::commit(&powers, &p, hid, Some(rng))) {
            Ok(x) => x,
            Err(_) => return Verdict::Discard("commit failed".into()),
        };
        let pr = match K::open(&powers, &p, z, &r) {
            Ok(x) => x,
            Err(_) => return Verdict::Discard("open failed".into()),
        };
        comms.push(cm);
        pts.push(z);
        vals.push(p.evaluate(&z));
        proofs.push(pr);
    }
    let x = sym("x");
    let names = ["honest", "commitment", "point", "value", "w", "random_v", "vk.g", "vk.gamma_g", "vk.h", "vk.beta_h"];
    let last = n - 1;
    match which {
        1 => comms[last].0 = TA(x),
        2 => pts[last] = x,
        3 => vals[last] = x,
        4 => proofs[last].w = TA(x),
        5 => proofs[0].random_v = Some(x),
        6 => vk.g = TA(x),
        7 => vk.gamma_g = TA(x),
        8 => { vk.h = TA(x); vk.prepared_h = TA(x); }
        9 => { vk.beta_h = TA(x); vk.prepared_beta_h = TA(x); }
        _ => {}
    }
    let tape = seed + 900;
    let (lib, reference) = if batch {
        let lib = catch(|| K::batch_check(&vk, &comms, &pts, &vals, &proofs, &mut StdRng::seed_from_u64(tape)).map_err(|e| errname(&e)));
        // the verifier's randomizers: r_1 = 1, then 128-bit draws from its RNG
        let mut vr = StdRng::seed_from_u64(tape);
        let mut r = SF::one();
        let mut total = SF::zero();
        for i in 0..n {
            let rho = proofs[i].random_v.unwrap_or(SF::zero());
            total += r * ((comms[i].0 .0 - vals[i] * vk.g.0 - rho * vk.gamma_g.0) * vk.h.0 - proofs[i].w.0 * (vk.beta_h.0 - pts[i] * vk.h.0));
            r = SF::from(u128::rand(&mut vr));
        }
        (lib, total == SF::zero())
    } else {
        let lib = catch(|| K::check(&vk, &comms[0], pts[0], vals[0], &proofs[0]).map_err(|e| errname(&e)));
        let rho = proofs[0].random_v.unwrap_or(SF::zero());
        let ok = (comms[0].0 .0 - vals[0] * vk.g.0 - rho * vk.gamma_g.0) * vk.h.0 == proofs[0].w.0 * (vk.beta_h.0 - pts[0] * vk.h.0);
        (lib, ok)
    };
    decide(lib, reference, &format!("kzg10 {}, replaced component: {}", if batch { "batch_check" } else { "check" }, names[which.min(9)]))
}

/// multilinear PST: e(C - vG, H) = prod_i e(G_mask_i - z_i G, pi_i), exactly nv proof elements
pub fn mlpst(which: usize, seed: u64) -> Verdict {
    use ark_poly::Polynomial;
    use ark_poly_commit::multilinear_pc::MultilinearPC;
    use ark_std::rand::{rngs::StdRng, SeedableRng};
    let nv = 2;
    let rng = &mut StdRng::seed_from_u64((seed + 5) ^ crate::engine::explore::replay_salt());
    let pp = MultilinearPC::<ToyPairing>::setup(nv, rng);
    let (ck, mut vk) = MultilinearPC::<ToyPairing>::trim(&pp, nv);
    let e: Vec<SF> = (0..1 << nv).map(|j| sym(&format!("e{}", j))).collect();
    let p = ML::from_evaluations_vec(nv, e);
    let mut pt: Vec<SF> = (0..nv).map(|j| sym(&format!("z{}", j))).collect();
    let mut com = MultilinearPC::commit(&ck, &p);
    let mut proof = MultilinearPC::open(&ck, &p, &pt);
    let mut v = p.evaluate(&pt);
    let x = sym("x");
    let names = ["honest", "commitment", "point[0]", "point[last]", "value", "proof[0]", "proof[last]", "vk.g", "vk.h", "vk.g_mask[0]"];
    match which {
        1 => com.g_product = TA(x),
        2 => pt[0] = x,
        3 => pt[nv - 1] = x,
        4 => v = x,
        5 => proof.proofs[0] = TA(x),
        6 => proof.proofs[nv - 1] = TA(x),
        7 => vk.g = TA(x),
        8 => vk.h = TA(x),
        9 => vk.g_mask_random[0] = TA(x),
        _ => {}
    }
    let lhs = (com.g_product.0 - v * vk.g.0) * vk.h.0;
    let mut rhs = SF::zero();
    for i in 0..nv {
        rhs += (vk.g_mask_random[i].0 - pt[i] * vk.g.0) * proof.proofs[i].0;
    }
    let reference = proof.proofs.len() == nv && lhs == rhs;
    let lib = catch(|| Ok::<bool, String>(MultilinearPC::check(&vk, &com, &pt, v, &proof)));
    decide(lib, reference, &format!("multilinear PST, replaced component: {}", names[which.min(9)]))
}

/// streaming KZG verifier: `verify` against g(f(tau) - v) = pi (tau - alpha) and `verify_multi_points` against
/// g(sum_i eta^i f_i(tau) - I(tau)) = pi Z(tau), I = sum_i eta^i (Lagrange interpolation of the claimed evaluations),
/// Z = vanishing polynomial of the points; tau and g re-derived from the setup's RNG stream
pub fn streaming(which: usize, multi: bool, seed: u64) -> Verdict {
    use crate::engine::explore::{assume_ne, sym_nonzero};
    use ark_ec::pairing::Pairing;
    use ark_ff::UniformRand;
    use ark_poly_commit::streaming_kzg::{CommitterKey, EvaluationProof, VerifierKey};
    use ark_std::rand::{rngs::StdRng, SeedableRng};
    let s = seed ^ crate::engine::explore::replay_salt();
    let mut r = StdRng::seed_from_u64(s + 77);
    let tau = SF::rand(&mut r);
    let g = <ToyPairing as Pairing>::G1::rand(&mut r).0;
    let m = if multi { 2 } else { 1 };
    let k = if multi { 2 } else { 1 };
    let ck = CommitterKey::<ToyPairing>::new(4, m, &mut StdRng::seed_from_u64(s + 77));
    let vk = VerifierKey::from(&ck);
    let horner = |c: &[SF], z: SF| c.iter().rev().fold(SF::zero(), |a, x| a * z + *x);
    let mut polys: Vec<Vec<SF>> = (0..k).map(|i| (0..2 + i).map(|j| sym(&format!("f{}_{}", i, j))).collect()).collect();
    let mut pts: Vec<SF> = (0..m).map(|j| sym(&format!("x{}", j))).collect();
    let eta = sym_nonzero("eta");
    let x = sym("x");
    let names = ["honest", "value", "point", "proof", "commitment (to the constant polynomial x)"];
    let (lib, reference) = if !multi {
        let (mut v, mut pf) = ck.open(&polys[0], &pts[0]);
        match which {
            1 => v = x,
            2 => pts[0] = x,
            3 => pf = EvaluationProof(TA(x)),
            4 => polys[0] = vec![x],
            _ => {}
        }
        let c = ck.commit(&polys[0]);
        let lib = catch(|| Ok::<bool, String>(vk.verify(&c, &pts[0], &v, &pf).is_ok()));
        (lib, g * (horner(&polys[0], tau) - v) == pf.0 .0 * (tau - pts[0]))
    } else {
        // documented precondition: distinct points (the verifier inverts their differences)
        let refs: Vec<&Vec<SF>> = polys.iter().collect();
        let mut pf = ck.batch_open_multi_points(&refs[..], &pts, &eta);
        let mut evals: Vec<Vec<SF>> = polys.iter().map(|p| pts.iter().map(|z| horner(p, *z)).collect()).collect();
        match which {
            1 => evals[k - 1][m - 1] = x,
            2 => pts[m - 1] = x,
            3 => pf = EvaluationProof(TA(x)),
            4 => polys[k - 1] = vec![x],
            _ => {}
        }
        for i in 0..m {
            for j in (i + 1)..m {
                if !assume_ne(pts[i], pts[j], "evaluation points not distinct") {
                    return Verdict::Hold;
                }
            }
        }
        let comms = ck.batch_commit(&polys);
        let lib = catch(|| Ok::<bool, String>(vk.verify_multi_points(&comms, &pts, &evals, &pf, &eta).is_ok()));
        let mut lhs = SF::zero();
        let mut e = SF::one();
        for i in 0..k {
            let mut interp = SF::zero();
            for j in 0..m {
                let mut num = SF::one();
                let mut den = SF::one();
                for l in 0..m {
                    if l != j {
                        num *= tau - pts[l];
                        den *= pts[j] - pts[l];
                    }
                }
                interp += evals[i][j] * num * den.inverse().unwrap_or(SF::zero());
            }
            lhs += e * (horner(&polys[i], tau) - interp);
            e *= eta;
        }
        let z: SF = pts.iter().fold(SF::one(), |a, p| a * (tau - *p));
        (lib, g * lhs == pf.0 .0 * z)
    };
    decide(lib, reference, &format!("streaming {}, replaced component: {}", if multi { "verify_multi_points" } else { "verify" }, names[which.min(4)]))
}
