//! C07: hiding commitments and proofs are blinded with fresh, sufficient randomness.
use super::common::*;
use crate::engine::explore::{as_rng_var, rng_draws, term_vars, with_sym_rng, Verdict};
use crate::engine::sf::SF;
use crate::schemes::*;
use ark_crypto_primitives::sponge::CryptographicSponge;
use ark_ff::Zero;
use ark_poly::{DenseMVPolynomial, DenseUVPolynomial, Polynomial};
use ark_poly_commit::{LabeledPolynomial, PolynomialCommitment, CHALLENGE_SIZE};

fn fresh_distinct(coeffs: &[SF], what: &str) -> Result<(), Verdict> {
    let mut seen = std::collections::BTreeSet::new();
    for (i, c) in coeffs.iter().enumerate() {
        match as_rng_var(*c) {
            Some(v) => {
                if !seen.insert(v) {
                    return Err(Verdict::viol("blinding-reused", format!("{}: blinding coefficient {} reuses an RNG draw", what, i)));
                }
            }
            None => return Err(Verdict::viol("blinding-not-fresh", format!("{}: blinding coefficient {} is not a fresh RNG draw", what, i))),
        }
    }
    Ok(())
}
fn eval(c: &[SF], z: SF) -> SF {
    let mut acc = SF::zero();
    for x in c.iter().rev() {
        acc = acc * z + *x;
    }
    acc
}

/// Marlin / Sonic (KZG10 blinding polynomials). `cfg.polys[0]` carries the hiding (and optional degree) bound.
pub fn kzg_family<S: Sch<P = UP>>(cfg: &Cfg, gamma: impl Fn(&CkOf<S>, Option<usize>, usize) -> Option<SF>, rands: impl Fn(&StateOf<S>) -> (Vec<SF>, Option<Vec<SF>>), random_v: impl Fn(&ProofOf<S>) -> Option<SF>) -> Verdict {
    let h = cfg.polys[0].hiding.unwrap();
    let bound = cfg.polys[0].bound;
    let mut w = match build::<S>(cfg) {
        Ok(w) => w,
        Err(v) => return v,
    };
    // non-hiding commitment of the same polynomial
    let plain = LabeledPolynomial::new("p0".into(), w.lps[0].polynomial().clone(), bound, None);
    let before = rng_draws();
    let (c0, _) = match PCOf::<S>::commit(&w.ck, [&plain], None) {
        Ok(x) => x,
        Err(e) => return Verdict::viol(&format!("commit-err:{}", errname(&e)), "non-hiding commit without an RNG failed"),
    };
    if rng_draws() != before {
        return Verdict::viol("rng-used-without-hiding", "a non-hiding commitment drew randomness");
    }
    let t0 = terms_of(c0[0].commitment());
    if t0.iter().any(|t| term_vars(*t).iter().any(|(_, k)| *k == 2)) {
        return Verdict::viol("blinded-without-hiding", "a non-hiding commitment depends on RNG draws");
    }
    let th = terms_of(w.comms[0].commitment());
    if th.len() != t0.len() {
        return Verdict::viol("shape", "hiding and non-hiding commitments have different shapes");
    }
    let (r, sr) = rands(&w.states[0]);
    if r.len() < h + 2 {
        return Verdict::viol("blinding-too-short", format!("blinding polynomial has {} coefficients for hiding bound {} (needs {})", r.len(), h, h + 2));
    }
    if let Err(v) = fresh_distinct(&r, "plain part") {
        return v;
    }
    let mut all = r.clone();
    // plain part: C_h - C_0 == sum r_i * gamma_i
    let mut acc = SF::zero();
    for (i, ri) in r.iter().enumerate() {
        match gamma(&w.ck, None, i) {
            Some(g) => acc += *ri * g,
            None => return Verdict::viol("gamma-missing", format!("committer key lacks hiding generator {}", i)),
        }
    }
    // Sonic with a degree bound has a single (shifted) commitment
    let plain_idx = 0;
    let sonic_bounded = S::NAME == "sonic" && bound.is_some();
    if !sonic_bounded && th[plain_idx] - t0[plain_idx] != acc {
        return Verdict::viol("blinding-term", "hiding commitment != non-hiding commitment + <blinding coefficients, gamma powers>");
    }
    if let Some(d) = bound {
        let part = if sonic_bounded { 0 } else { 1 };
        let coeffs = if sonic_bounded { r.clone() } else { match &sr { Some(s) => s.clone(), None => return Verdict::viol("no-shifted-rand", "degree-bounded hiding commitment without shifted randomness") } };
        if !sonic_bounded {
            if coeffs.len() < h + 2 {
                return Verdict::viol("blinding-too-short", format!("shifted blinding polynomial has {} coefficients (needs {})", coeffs.len(), h + 2));
            }
            all.extend(coeffs.iter().copied());
            if let Err(v) = fresh_distinct(&all, "plain + shifted parts") {
                return v;
            }
        }
        let mut acc = SF::zero();
        for (i, ri) in coeffs.iter().enumerate() {
            match gamma(&w.ck, Some(d), i) {
                Some(g) => acc += *ri * g,
                None => return Verdict::viol("gamma-missing", format!("committer key lacks shifted hiding generator {}", i)),
            }
        }
        if th[part] - t0[part] != acc {
            return Verdict::viol("blinding-term-shifted", "shifted hiding commitment != non-hiding + <blinding, gamma powers>");
        }
    }
    // proof.random_v == challenge-weighted blinding evaluations
    let sp0 = sponge(cfg, 1);
    let mut sp_p = sp0.clone();
    let mut sp_c = sp0.clone();
    let proof = match w.open(&[0], 0, &mut sp_p) {
        Ok(p) => p,
        Err(e) => return Verdict::viol(&format!("open-err:{}", e), e.clone()),
    };
    let z = S::point_coords(&w.points[0].1)[0];
    let xi: SF = sp_c.squeeze_field_elements_with_sizes(&[CHALLENGE_SIZE])[0];
    let mut want = xi * eval(&r, z);
    if S::NAME == "marlin" {
        if let Some(s) = &sr {
            let xi1: SF = sp_c.squeeze_field_elements_with_sizes(&[CHALLENGE_SIZE])[0];
            want += xi1 * eval(s, z);
        }
    }
    match random_v(&proof) {
        Some(v) => {
            if v != want {
                return Verdict::viol("random-v", "proof.random_v is not the challenge-weighted evaluation of the blinding polynomial(s) at the point");
            }
        }
        None => return Verdict::viol("random-v-missing", "hiding opening without a blinding evaluation"),
    }
    // missing RNG must fail
    let hid = LabeledPolynomial::new("p0".into(), w.lps[0].polynomial().clone(), bound, Some(h));
    match catch(|| PCOf::<S>::commit(&w.ck, [&hid], None)) {
        Ok(Ok(_)) => return Verdict::viol("no-rng-accepted", "hiding commit without an RNG returned a commitment"),
        _ => {}
    }
    let _ = with_sym_rng(false, || ());
    Verdict::Hold
}

pub fn marlin(cfg: &Cfg) -> Verdict {
    kzg_family::<Marlin>(
        cfg,
        |ck, d, i| match d {
            None => ck.powers_of_gamma_g.get(i).map(|g| g.0),
            Some(_) => ck.powers_of_gamma_g.get(i).map(|g| g.0),
        },
        |st| (st.rand.blinding_polynomial.coeffs().to_vec(), st.shifted_rand.as_ref().map(|r| r.blinding_polynomial.coeffs().to_vec())),
        |p| p.random_v,
    )
}
pub fn sonic(cfg: &Cfg) -> Verdict {
    kzg_family::<Sonic>(
        cfg,
        |ck, d, i| match d {
            None => ck.powers_of_gamma_g.get(i).map(|g| g.0),
            Some(d) => ck.shifted_powers_of_gamma_g.as_ref().and_then(|m| m.get(&d)).and_then(|v| v.get(i)).map(|g| g.0),
        },
        |st| (st.blinding_polynomial.coeffs().to_vec(), None),
        |p| p.random_v,
    )
}

pub fn ipa(cfg: &Cfg) -> Verdict {
    let bound = cfg.polys[0].bound;
    let w = match build::<Ipa>(cfg) {
        Ok(w) => w,
        Err(v) => return v,
    };
    let plain = LabeledPolynomial::new("p0".into(), w.lps[0].polynomial().clone(), bound, None);
    let before = rng_draws();
    let (c0, _) = match IpaPC::commit(&w.ck, [&plain], None) {
        Ok(x) => x,
        Err(e) => return Verdict::viol(&format!("commit-err:{}", errname(&e)), "non-hiding commit without an RNG failed"),
    };
    if rng_draws() != before {
        return Verdict::viol("rng-used-without-hiding", "a non-hiding commitment drew randomness");
    }
    let st = &w.states[0];
    let mut all = vec![st.rand];
    if w.comms[0].commitment().comm.0 - c0[0].commitment().comm.0 != st.rand * w.ck.s.0 {
        return Verdict::viol("blinding-term", "hiding commitment != non-hiding commitment + rand * s");
    }
    if let Some(_) = bound {
        match (st.shifted_rand, w.comms[0].commitment().shifted_comm, c0[0].commitment().shifted_comm) {
            (Some(sr), Some(ch), Some(cp)) => {
                all.push(sr);
                if ch.0 - cp.0 != sr * w.ck.s.0 {
                    return Verdict::viol("blinding-term-shifted", "shifted hiding commitment != non-hiding + shifted_rand * s");
                }
            }
            _ => return Verdict::viol("no-shifted-rand", "degree-bounded hiding commitment without shifted randomness/commitment"),
        }
    }
    if let Err(v) = fresh_distinct(&all, "ipa randomness") {
        return v;
    }
    let hid = LabeledPolynomial::new("p0".into(), w.lps[0].polynomial().clone(), bound, cfg.polys[0].hiding);
    match catch(|| IpaPC::commit(&w.ck, [&hid], None)) {
        Ok(Ok(_)) => return Verdict::viol("no-rng-accepted", "hiding commit without an RNG returned a commitment"),
        _ => {}
    }
    Verdict::Hold
}

pub fn pst13(cfg: &Cfg) -> Verdict {
    let h = cfg.polys[0].hiding.unwrap();
    let mut w = match build::<Pst13>(cfg) {
        Ok(w) => w,
        Err(v) => return v,
    };
    let plain = LabeledPolynomial::new("p0".into(), w.lps[0].polynomial().clone(), None, None);
    let before = rng_draws();
    let (c0, _) = match Pst13PC::commit(&w.ck, [&plain], None) {
        Ok(x) => x,
        Err(e) => return Verdict::viol(&format!("commit-err:{}", errname(&e)), "non-hiding commit without an RNG failed"),
    };
    if rng_draws() != before {
        return Verdict::viol("rng-used-without-hiding", "a non-hiding commitment drew randomness");
    }
    let bp = &w.states[0].blinding_polynomial.clone();
    let terms = bp.terms().to_vec();
    let coeffs: Vec<SF> = terms.iter().map(|(c, _)| *c).collect();
    if let Err(v) = fresh_distinct(&coeffs, "pst13 blinding polynomial") {
        return v;
    }
    if coeffs.len() < h + 2 {
        return Verdict::viol("blinding-too-short", format!("blinding polynomial has {} terms for hiding bound {} (needs {})", coeffs.len(), h, h + 2));
    }
    let mut acc = SF::zero();
    for (c, t) in &terms {
        use ark_poly::multivariate::Term;
        let g = if t.is_constant() { w.ck.gamma_g.0 } else { w.ck.powers_of_gamma_g[t.vars()[0]][t.degree() - 1].0 };
        if t.vars().len() > 1 {
            return Verdict::viol("blinding-not-univariate", "blinding polynomial has a mixed monomial");
        }
        acc += *c * g;
    }
    if w.comms[0].commitment().comm.0 .0 - c0[0].commitment().comm.0 .0 != acc {
        return Verdict::viol("blinding-term", "hiding commitment != non-hiding commitment + <blinding coefficients, gamma powers>");
    }
    let sp0 = sponge(cfg, 1);
    let (mut sp_p, mut sp_c) = (sp0.clone(), sp0.clone());
    let proof = match w.open(&[0], 0, &mut sp_p) {
        Ok(p) => p,
        Err(e) => return Verdict::viol(&format!("open-err:{}", e), e.clone()),
    };
    let xi: SF = sp_c.squeeze_field_elements_with_sizes(&[CHALLENGE_SIZE])[0];
    match proof.random_v {
        Some(v) => {
            if v != xi * bp.evaluate(&w.points[0].1) {
                return Verdict::viol("random-v", "proof.random_v is not challenge * blinding(z)");
            }
        }
        None => return Verdict::viol("random-v-missing", "hiding opening without a blinding evaluation"),
    }
    let hid = LabeledPolynomial::new("p0".into(), w.lps[0].polynomial().clone(), None, Some(h));
    match catch(|| Pst13PC::commit(&w.ck, [&hid], None)) {
        Ok(Ok(_)) => return Verdict::viol("no-rng-accepted", "hiding commit without an RNG returned a commitment"),
        _ => {}
    }
    Verdict::Hold
}

/// Hyrax: one fresh blinding scalar per row (the commitment identity itself is C08's hyrax_rows)
pub fn hyrax(cfg: &Cfg) -> Verdict {
    let w = match build::<Hyrax>(cfg) {
        Ok(w) => w,
        Err(v) => return v,
    };
    let (rands, _) = w.states[0].verif_parts();
    let dim = 1usize << (cfg.sz.num_vars / 2);
    if rands.len() != dim {
        return Verdict::viol("blinding-too-short", format!("{} blinding scalars for {} rows", rands.len(), dim));
    }
    if let Err(v) = fresh_distinct(rands, "hyrax row randomness") {
        return v;
    }
    match catch(|| HyraxPCS::commit(&w.ck, &w.lps, None)) {
        Ok(Ok(_)) => Verdict::viol("no-rng-accepted", "Hyrax commit without an RNG returned a commitment"),
        _ => Verdict::Hold,
    }
}

/// KZG10's inherent API: hiding commit without an RNG must fail; the blinding identity holds for the
/// direct commit as well.
pub fn kzg10_direct(h: usize, seed: u64) -> Verdict {
    use crate::engine::grp::ToyPairing;
    use ark_poly_commit::kzg10::{Powers, KZG10};
    use ark_std::rand::{rngs::StdRng, SeedableRng};
    type K = KZG10<ToyPairing, UP>;
    let rng = &mut StdRng::seed_from_u64(seed + 3);
    let pp = match K::setup(4, false, rng) {
        Ok(p) => p,
        Err(e) => return Verdict::viol("setup-err", format!("{:?}", e)),
    };
    let powers = Powers { powers_of_g: pp.powers_of_g[..=4].to_vec().into(), powers_of_gamma_g: (0..=h + 1).map(|i| pp.powers_of_gamma_g[&i]).collect::<Vec<_>>().into() };
    let c: Vec<SF> = (0..3).map(|j| crate::engine::explore::sym(&format!("c{}", j))).collect();
    let p = UP::from_coefficients_vec(c);
    match catch(|| K::commit(&powers, &p, Some(h), None)) {
        Ok(Ok(_)) => return Verdict::viol("no-rng-accepted", "KZG10::commit with a hiding bound and no RNG returned a commitment"),
        _ => {}
    }
    crate::engine::sf::RNG_NONZERO.with(|c| c.set(true));
    let (ch, r) = match with_sym_rng(true, || K::commit(&powers, &p, Some(h), Some(rng))) {
        Ok(x) => x,
        Err(e) => return Verdict::viol("commit-err", format!("{:?}", e)),
    };
    let before = rng_draws();
    let (c0, r0) = match K::commit(&powers, &p, None, None) {
        Ok(x) => x,
        Err(e) => return Verdict::viol("commit-err", format!("{:?}", e)),
    };
    if rng_draws() != before || r0.is_hiding() {
        return Verdict::viol("rng-used-without-hiding", "a non-hiding KZG10 commitment drew randomness or returned hiding state");
    }
    let bl = r.blinding_polynomial.coeffs().to_vec();
    if bl.len() < h + 2 {
        return Verdict::viol("blinding-too-short", format!("blinding polynomial has {} coefficients for hiding bound {}", bl.len(), h));
    }
    if let Err(v) = fresh_distinct(&bl, "kzg10 blinding polynomial") {
        return v;
    }
    let mut acc = SF::zero();
    for (i, b) in bl.iter().enumerate() {
        acc += *b * powers.powers_of_gamma_g[i].0;
    }
    if ch.0 .0 - c0.0 .0 != acc {
        return Verdict::viol("blinding-term", "KZG10 hiding commitment != non-hiding commitment + <blinding, gamma powers>");
    }
    Verdict::Hold
}

/// Hyrax: every polynomial opened in one call gets its own fresh masks: the auxiliary commitments
/// com_d / com_b and the responses z_d / z_b of different proofs depend on disjoint, non-empty sets
/// of RNG draws.
pub fn hyrax_open_masks(cfg: &Cfg) -> Verdict {
    let mut w = match build::<Hyrax>(cfg) {
        Ok(w) => w,
        Err(v) => return v,
    };
    let sp0 = sponge(cfg, 1);
    let mut sp_p = sp0.clone();
    let idx: Vec<usize> = (0..w.lps.len()).collect();
    let proofs = match w.open(&idx, 0, &mut sp_p) {
        Ok(p) => p,
        Err(e) => return Verdict::viol(&format!("open-err:{}", e), e.clone()),
    };
    if proofs.len() != idx.len() {
        return Verdict::viol("shape", "one proof per polynomial expected");
    }
    let rngs = |x: SF| -> std::collections::BTreeSet<u32> { term_vars(x).into_iter().filter(|(_, k)| *k == 2).map(|(v, _)| v).collect() };
    // draws made by commit (row randomness) are shared knowledge of the state; masks must add NEW draws
    let commit_draws: std::collections::BTreeSet<u32> = w.states.iter().flat_map(|s| s.verif_parts().0.iter().flat_map(|r| rngs(*r)).collect::<Vec<_>>()).collect();
    let mut seen: std::collections::BTreeSet<u32> = Default::default();
    for (i, p) in proofs.iter().enumerate() {
        for (name, x) in [("com_d", p.com_d.0), ("com_b", p.com_b.0), ("com_eval", p.com_eval.0)] {
            let fresh: std::collections::BTreeSet<u32> = rngs(x).difference(&commit_draws).copied().collect();
            if fresh.is_empty() {
                return Verdict::viol("mask-missing", format!("proof {}: {} carries no fresh randomness", i, name));
            }
            if name == "com_d" {
                if fresh.iter().any(|v| seen.contains(v)) {
                    return Verdict::viol("mask-shared", format!("proof {}: the mask commitment com_d reuses RNG draws of an earlier proof in the same opening", i));
                }
                seen.extend(fresh.iter().copied());
            }
        }
    }
    Verdict::Hold
}

/// One `commit` call over a batch that alternates hiding and non-hiding polynomials (cfg.polys): every
/// non-hiding commitment is free of RNG draws and equals the commitment made alone without an RNG, every
/// hiding commitment carries RNG draws that no other commitment of the batch carries.
pub fn mixed_batch<S: Sch>(cfg: &Cfg) -> Verdict {
    let w = match build::<S>(cfg) {
        Ok(w) => w,
        Err(v) => return v,
    };
    let rngs = |x: SF| -> std::collections::BTreeSet<u32> { term_vars(x).into_iter().filter(|(_, k)| *k == 2).map(|(v, _)| v).collect() };
    let mut seen: std::collections::BTreeSet<u32> = Default::default();
    for i in 0..w.lps.len() {
        let terms = terms_of(w.comms[i].commitment());
        let draws: std::collections::BTreeSet<u32> = terms.iter().flat_map(|t| rngs(*t)).collect();
        if cfg.polys[i].hiding.is_none() {
            if !draws.is_empty() {
                return Verdict::viol("blinded-without-hiding-bound", format!("commitment {} (no hiding bound) of a mixed batch carries RNG draws", i));
            }
            let plain = LabeledPolynomial::new(w.lps[i].label().clone(), w.lps[i].polynomial().clone(), w.lps[i].degree_bound(), None);
            match catch(|| PCOf::<S>::commit(&w.ck, [&plain], None)) {
                Ok(Ok((c, _))) => {
                    if terms_of(c[0].commitment()) != terms {
                        return Verdict::viol("nonhiding-not-deterministic", format!("commitment {} (no hiding bound) of a mixed batch differs from the commitment made alone", i));
                    }
                }
                _ => return Verdict::viol("commit-err", "non-hiding commit without an RNG failed"),
            }
            let st = terms_of(&w.states[i]);
            if st.iter().any(|t| !rngs(*t).is_empty()) {
                return Verdict::viol("state-blinded-without-hiding-bound", format!("commitment state {} (no hiding bound) carries RNG draws", i));
            }
        } else {
            if draws.is_empty() {
                return Verdict::viol("unblinded", format!("commitment {} (hiding) of a mixed batch carries no RNG draw", i));
            }
            if draws.iter().any(|d| seen.contains(d)) {
                return Verdict::viol("blinding-shared", format!("commitment {} (hiding) reuses RNG draws of another commitment of the batch", i));
            }
            seen.extend(draws.iter().copied());
        }
    }
    Verdict::Hold
}

/// IPA opening of a hiding polynomial whose degree is below the supported degree: the masking polynomial must
/// cover every coefficient slot of the argument (supported degree + 1 fresh draws, plus the masking commitment's
/// own randomness), and every round message must depend on draws made by `open`.
pub fn ipa_open_masking(cfg: &Cfg) -> Verdict {
    let mut w = match build::<Ipa>(cfg) {
        Ok(w) => w,
        Err(v) => return v,
    };
    let d = w.ck.comm_key.len() - 1;
    let rngs = |x: SF| -> std::collections::BTreeSet<u32> { term_vars(x).into_iter().filter(|(_, k)| *k == 2).map(|(v, _)| v).collect() };
    let commit_draws: std::collections::BTreeSet<u32> = terms_of(&w.states[0]).iter().flat_map(|t| rngs(*t)).collect();
    let before = rng_draws();
    let mut sp = sponge(cfg, 1);
    let proof = match w.open(&[0], 0, &mut sp) {
        Ok(p) => p,
        Err(e) => return Verdict::viol(&format!("open-err:{}", e), e.clone()),
    };
    let drawn = rng_draws() - before;
    if drawn < d + 2 {
        return Verdict::viol("open-masking-too-short", format!("open drew {} random scalars for a hiding opening under supported degree {} (needs {} for the masking polynomial and 1 for its commitment)", drawn, d, d + 1));
    }
    if proof.hiding_comm.is_none() || proof.rand.is_none() {
        return Verdict::viol("open-unmasked", "hiding opening without masking commitment / randomness");
    }
    for (i, (l, r)) in proof.l_vec.iter().zip(proof.r_vec.iter()).enumerate() {
        for (name, x) in [("L", l.0), ("R", r.0)] {
            if rngs(x).difference(&commit_draws).next().is_none() {
                return Verdict::viol("round-unmasked", format!("round message {}_{} of a hiding opening depends on no random draw made by open", name, i));
            }
        }
    }
    Verdict::Hold
}
