//! C04: degree bounds are enforced by committer and verifier (Marlin, Sonic, IPA).
use super::common::*;
use crate::engine::explore::{assume_ne, Verdict};
use crate::engine::sf::SF;
use crate::schemes::*;
use ark_ff::{Field, Zero};
use ark_poly_commit::{LabeledCommitment, PolynomialCommitment};

/// commit/open accept exactly when the (value-dependent) degree is within the declared bound,
/// the bound is enforced by the key and within the supported degree.
/// `cfg.polys[0]`: `len` symbolic coefficients with declared bound; `expect_ok_if_degree_fits`: false
/// when the bound itself is unsupported (then every outcome must be an error).
pub fn admission<S: Sch<P = UP>>(cfg: &Cfg, bound_supported: bool) -> Verdict {
    let (ck, _vk, mut rng, _pp) = match keys::<S>(cfg) {
        Ok(k) => k,
        Err(v) => return v,
    };
    let (lps, coeffs) = polys::<S>(cfg, &mut rng);
    let d = cfg.polys[0].bound.unwrap();
    // the driver's own degree computation (branches on the symbolic coefficients)
    let mut deg = coeffs[0].len();
    while deg > 0 && coeffs[0][deg - 1].is_zero() {
        deg -= 1;
    }
    let degree = deg.saturating_sub(1);
    let fits = degree <= d && degree <= cfg.sz.supported;
    let res = catch(|| PCOf::<S>::commit(&ck, &lps, Some(&mut rng)));
    let ok = matches!(res, Ok(Ok(_)));
    if ok && !(fits && bound_supported) {
        return Verdict::viol("commit-accepted-bad-bound", format!("commit accepted degree {} under bound {} (bound supported: {})", degree, d, bound_supported));
    }
    if !ok && fits && bound_supported {
        return Verdict::viol("commit-refused-good-bound", format!("commit refused degree {} under enforced bound {}: {:?}", degree, d, res.map(|r| r.map(|_| ()).map_err(|e| errname(&e)))));
    }
    // prover side: the same labelled polynomial handed to `open`, with a commitment and state made for it under
    // a label the committer accepts (the largest enforced bound that fits, else no bound): `open` must refuse
    // exactly what `commit` refuses
    if degree > cfg.sz.supported {
        return Verdict::Hold;
    }
    let enforced: Vec<usize> = cfg.enforced.clone().unwrap_or_default();
    let alt: Option<usize> = enforced.iter().copied().filter(|b| *b >= degree && *b <= cfg.sz.supported).max();
    let lps_ok: Vec<ark_poly_commit::LabeledPolynomial<SF, UP>> = lps.iter().map(|p| ark_poly_commit::LabeledPolynomial::new(p.label().clone(), p.polynomial().clone(), alt, p.hiding_bound())).collect();
    let (comms, states) = match catch(|| PCOf::<S>::commit(&ck, &lps_ok, Some(&mut rng))) {
        Ok(Ok(x)) => x,
        _ => return Verdict::Hold,
    };
    let z = crate::engine::explore::sym("z");
    let mut sp = sponge(cfg, 1);
    let opened = catch(|| PCOf::<S>::open(&ck, &lps, &comms, &z, &mut sp, &states, Some(&mut rng)));
    if matches!(opened, Ok(Ok(_))) && !(fits && bound_supported) {
        return Verdict::viol("open-accepted-bad-bound", format!("open returned a proof for degree {} declared with bound {} (bound supported: {}); commitment made under {:?}", degree, d, bound_supported, alt));
    }
    Verdict::Hold
}

#[derive(Clone, Copy, Debug, PartialEq)]
pub enum Attack {
    /// commitment made under cfg.polys[0].bound is presented with label bound `other`
    Relabel(usize),
    /// commitment number `.0` (made under its polynomial's bound) is presented with label bound `.1`
    RelabelAt(usize, usize),
    /// shifted commitment removed, label keeps the bound
    ShiftDrop,
    /// shifted commitments of polynomials 0 and 1 swapped
    ShiftSwap,
    /// bound label removed together with nothing else (commitment keeps its shifted part)
    LabelDrop,
    /// a polynomial committed WITHOUT a bound (its degree may exceed d) is presented with label bound d
    /// and the identity element as shifted commitment
    ShiftIdentity(usize),
}

pub fn verifier_side<S: Sch<P = UP>>(cfg: &Cfg, attack: Attack, negate: bool) -> Verdict
where
    CommOf<S>: ShiftParts,
{
    let mut w = match catch(|| build::<S>(cfg)) {
        Ok(Ok(w)) => w,
        _ => return Verdict::Discard("honest phase failed".into()),
    };
    let sp0 = sponge(cfg, 1);
    let (mut sp_p, mut sp_v) = (sp0.clone(), sp0.clone());
    let idx = w.at_point(0);
    let proof = match catch(|| w.open(&idx, 0, &mut sp_p)) {
        Ok(Ok(p)) => p,
        _ => return Verdict::Discard("honest phase failed".into()),
    };
    let pt = w.points[0].1.clone();
    let vals: Vec<SF> = idx.iter().map(|i| w.lps[*i].evaluate(&pt)).collect();
    // degree-bound enforcement is a polynomial identity test at the point: it needs p(z) != 0 and a
    // non-trivial commitment (documented for Marlin: the point must be random given the polynomial)
    for (k, v) in vals.iter().enumerate() {
        if !assume_ne(*v, SF::zero(), "p(z) == 0") {
            return Verdict::Hold;
        }
        let t = terms_of(w.comms[idx[k]].commitment());
        if !assume_ne(t[0], SF::zero(), "commitment is the identity") {
            return Verdict::Hold;
        }
    }
    // IPA shifts by powers of the evaluation point, not of a trapdoor: a label d' instead of d is indistinguishable
    // at points with z^|d' - d| = 1 (probability |d' - d| / |F| for the random point the scheme assumes)
    if S::NAME == "ipa" {
        let pair = match attack {
            Attack::Relabel(o) => Some((0usize, o)),
            Attack::RelabelAt(i, o) => Some((i, o)),
            _ => None,
        };
        if let Some((i, other)) = pair {
            if let Some(d) = w.comms[i].degree_bound() {
                let k = if other > d { other - d } else { d - other } as u64;
                let zc = S::point_coords(&pt);
                if !assume_ne(zc[0].pow([k]), SF::from(1u64), "z^|d' - d| == 1") {
                    return Verdict::Hold;
                }
                // ... and at z = 0, where every shifted evaluation z^(D-d) p(z) vanishes whatever d is
                if !assume_ne(zc[0], SF::zero(), "z == 0") {
                    return Verdict::Hold;
                }
            }
        }
    }
    match attack {
        Attack::Relabel(other) => {
            let c = w.comms[0].clone();
            w.comms[0] = LabeledCommitment::new(c.label().clone(), c.commitment().clone(), Some(other));
        }
        Attack::RelabelAt(i, other) => {
            let c = w.comms[i].clone();
            w.comms[i] = LabeledCommitment::new(c.label().clone(), c.commitment().clone(), Some(other));
        }
        Attack::LabelDrop => {
            let c = w.comms[0].clone();
            w.comms[0] = LabeledCommitment::new(c.label().clone(), c.commitment().clone(), None);
        }
        Attack::ShiftIdentity(d) => {
            let c = w.comms[0].clone();
            let mut cm = c.commitment().clone();
            cm.set_identity_shift();
            w.comms[0] = LabeledCommitment::new(c.label().clone(), cm, Some(d));
        }
        Attack::ShiftDrop => {
            let c = w.comms[0].clone();
            let mut cm = c.commitment().clone();
            cm.drop_shift();
            w.comms[0] = LabeledCommitment::new(c.label().clone(), cm, c.degree_bound());
        }
        Attack::ShiftSwap => {
            let (c0, c1) = (w.comms[0].clone(), w.comms[1].clone());
            let (mut a, mut b) = (c0.commitment().clone(), c1.commitment().clone());
            // the two shifted parts must differ for the swap to change anything
            let (ta, tb) = (terms_of(&a), terms_of(&b));
            if ta.len() < 2 || tb.len() < 2 || !assume_ne(ta[1], tb[1], "shifted commitments coincide") {
                return Verdict::Hold;
            }
            a.swap_shift(&mut b);
            w.comms[0] = LabeledCommitment::new(c0.label().clone(), a, c0.degree_bound());
            w.comms[1] = LabeledCommitment::new(c1.label().clone(), b, c1.degree_bound());
        }
    }
    let r = catch(|| w.check(&idx, &pt, vals, &proof, &mut sp_v));
    let _ = <S::PC as PolynomialCommitment<SF, UP>>::setup::<ark_std::rand::rngs::StdRng>;
    match (r, negate) {
        (Ok(Ok(true)), false) => Verdict::viol("accepted-wrong-bound", format!("{:?}: verifier accepted", attack)),
        (Ok(Ok(true)), true) => Verdict::Hold,
        (_, false) => Verdict::Hold,
        (_, true) => Verdict::viol("twin", "twin"),
    }
}

pub trait ShiftParts {
    fn set_identity_shift(&mut self) {}
    fn drop_shift(&mut self);
    fn swap_shift(&mut self, other: &mut Self);
}
impl ShiftParts for ark_poly_commit::marlin_pc::Commitment<crate::engine::grp::ToyPairing> {
    fn set_identity_shift(&mut self) {
        use ark_poly_commit::PCCommitment;
        self.shifted_comm = Some(ark_poly_commit::kzg10::Commitment::empty());
    }
    fn drop_shift(&mut self) {
        self.shifted_comm = None;
    }
    fn swap_shift(&mut self, o: &mut Self) {
        core::mem::swap(&mut self.shifted_comm, &mut o.shifted_comm);
    }
}
impl ShiftParts for ark_poly_commit::kzg10::Commitment<crate::engine::grp::ToyPairing> {
    fn drop_shift(&mut self) {}
    fn swap_shift(&mut self, o: &mut Self) {
        core::mem::swap(self, o);
    }
}
impl ShiftParts for ark_poly_commit::ipa_pc::Commitment<crate::engine::grp::TA<1>> {
    fn drop_shift(&mut self) {
        self.shifted_comm = None;
    }
    fn swap_shift(&mut self, o: &mut Self) {
        core::mem::swap(&mut self.shifted_comm, &mut o.shifted_comm);
    }
}

/// Sonic: keys from one universal string, trimmed for different requests (a multi-step key history).
/// The verifier key of request A was not trimmed for bound d. A committer key of request B enforces d; a
/// commitment to p under bound d is, as a group element, the plain commitment to q = X^(max-d)*p. The library's
/// prover opens q (plain, under a full key); the proof and the value q(z) are presented to verifier A for the
/// commitment *labelled with bound d*. A must not accept (it cannot enforce d) - in particular not the value
/// q(z) = z^(max-d) p(z), which is a false claim about p.
pub fn sonic_foreign_bound(cfg: &Cfg, d: usize) -> Verdict {
    use ark_poly::{DenseUVPolynomial, Polynomial};
    use ark_poly_commit::LabeledPolynomial;
    let (_ck_a, vk_a, mut rng, pp) = match keys::<Sonic>(cfg) {
        Ok(k) => k,
        Err(v) => return v,
    };
    let maxd = cfg.sz.max_degree;
    let (ck_b, _) = match SonicPC::trim(&pp, cfg.sz.supported, 0, Some(&[d])) {
        Ok(k) => k,
        Err(_) => return Verdict::Discard("driver: request B cannot be trimmed".into()),
    };
    let (ck_full, _) = match SonicPC::trim(&pp, maxd, 0, None) {
        Ok(k) => k,
        Err(_) => return Verdict::Discard("driver: the full key cannot be trimmed".into()),
    };
    let (lps, coeffs) = polys::<Sonic>(cfg, &mut rng);
    let p = lps[0].polynomial().clone();
    let mut qc = vec![SF::zero(); maxd - d];
    qc.extend(coeffs[0].iter().copied());
    let q = UP::from_coefficients_vec(qc);
    let lp_b = LabeledPolynomial::new("p0".to_string(), p.clone(), Some(d), None);
    let lq = LabeledPolynomial::new("p0".to_string(), q.clone(), None, None);
    let (cb, _) = match catch(|| SonicPC::commit(&ck_b, [&lp_b], None)) {
        Ok(Ok(x)) => x,
        _ => return Verdict::Discard("honest phase failed".into()),
    };
    let (cq, sq) = match catch(|| SonicPC::commit(&ck_full, [&lq], None)) {
        Ok(Ok(x)) => x,
        _ => return Verdict::Discard("honest phase failed".into()),
    };
    if terms_of(cb[0].commitment())[0] != terms_of(cq[0].commitment())[0] {
        return Verdict::Discard("driver: the bounded commitment to p is not the plain commitment to X^(max-d) p".into());
    }
    let z = crate::engine::explore::sym("z");
    let (pz, qz) = (p.evaluate(&z), q.evaluate(&z));
    if !assume_ne(pz, qz, "q(z) == p(z)") {
        return Verdict::Hold;
    }
    let sp0 = sponge(cfg, 1);
    let proof = match catch(|| SonicPC::open(&ck_full, [&lq], &cq, &z, &mut sp0.clone(), &sq, None)) {
        Ok(Ok(x)) => x,
        _ => return Verdict::Discard("honest phase failed".into()),
    };
    let presented = LabeledCommitment::new("p0".to_string(), cb[0].commitment().clone(), Some(d));
    for (val, what) in [(qz, "z^(max-d) p(z)"), (pz, "p(z)")] {
        let r = catch(|| SonicPC::check(&vk_a, [&presented], &z, vec![val], &proof, &mut sp0.clone(), None));
        if let Ok(Ok(true)) = r {
            return Verdict::viol("accepted-wrong-bound", format!("a verifier key that was not trimmed for bound {} accepted a commitment labelled with it (claimed value {})", d, what));
        }
    }
    Verdict::Hold
}
