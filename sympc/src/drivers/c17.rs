//! C17: out-of-domain requests are refused, never answered with a wrong result.
use super::common::*;
use crate::engine::explore::{sym, with_sym_rng, Verdict};
use crate::engine::grp::ToyPairing;
use crate::engine::sf::SF;
use crate::schemes::*;
use ark_ff::Zero;
use ark_poly::{multivariate::{SparseTerm, Term}, DenseMVPolynomial};
use ark_poly_commit::multilinear_pc::MultilinearPC;
use ark_poly_commit::{Evaluations, LabeledCommitment, LabeledPolynomial, PolynomialCommitment, QuerySet};
use ark_std::rand::{rngs::StdRng, SeedableRng};

/// a polynomial with supported+2 symbolic coefficients: commit may succeed only if the degree
/// (value-dependent) is within the supported degree
pub fn degree_too_large<S: Sch<P = UP>>(cfg: &Cfg) -> Verdict {
    let (ck, _vk, mut rng, _pp) = match keys::<S>(cfg) {
        Ok(k) => k,
        Err(v) => return v,
    };
    let (lps, coeffs) = polys::<S>(cfg, &mut rng);
    let mut deg = coeffs[0].len();
    while deg > 0 && coeffs[0][deg - 1].is_zero() {
        deg -= 1;
    }
    let degree = deg.saturating_sub(1);
    // IPA rounds the supported degree up to 2^k - 1
    let sup = if S::NAME == "ipa" { (cfg.sz.supported + 1).next_power_of_two() - 1 } else { cfg.sz.supported };
    let res = catch(|| PCOf::<S>::commit(&ck, &lps, Some(&mut rng)));
    match res {
        Ok(Ok(_)) if degree > sup => Verdict::viol("commit-accepted-too-large", format!("commit accepted degree {} with supported degree {}", degree, sup)),
        Ok(Ok(_)) => Verdict::Hold,
        _ if degree <= sup => Verdict::viol("commit-refused-in-domain", format!("commit refused degree {} with supported degree {}", degree, sup)),
        _ => Verdict::Hold,
    }
}

/// open with a committer key that supports fewer coefficients than the polynomial has: the polynomial is
/// committed under a key trimmed to max_degree (same universal parameters) and opened under the small key
pub fn open_too_large<S: Sch<P = UP>>(cfg: &Cfg) -> Verdict {
    let mut big = cfg.clone();
    big.sz.supported = cfg.sz.max_degree;
    let (ck_big, _vk, mut rng, _pp) = match keys::<S>(&big) {
        Ok(k) => k,
        Err(v) => return v,
    };
    let (ck_small, _vk2, _rng2, _pp2) = match keys::<S>(cfg) {
        Ok(k) => k,
        Err(v) => return v,
    };
    let (lps, coeffs) = polys::<S>(cfg, &mut rng);
    let mut deg = coeffs[0].len();
    while deg > 0 && coeffs[0][deg - 1].is_zero() {
        deg -= 1;
    }
    let degree = deg.saturating_sub(1);
    let sup = if S::NAME == "ipa" { (cfg.sz.supported + 1).next_power_of_two() - 1 } else { cfg.sz.supported };
    let (comms, states) = match catch(|| PCOf::<S>::commit(&ck_big, &lps, Some(&mut rng))) {
        Ok(Ok(x)) => x,
        _ => return Verdict::Discard("commit under the large key failed".into()),
    };
    let z = sym("z");
    let mut sp = sponge(cfg, 1);
    let res = catch(|| PCOf::<S>::open(&ck_small, &lps, &comms, &z, &mut sp, &states, Some(&mut rng)));
    match res {
        Ok(Ok(_)) if degree > sup => Verdict::viol("open-accepted-too-large", format!("open returned a proof for degree {} with supported degree {}", degree, sup)),
        _ => Verdict::Hold,
    }
}

/// hiding bound outside [1, supported hiding bound]: commit must not return a commitment
pub fn hiding_out_of_range<S: Sch>(cfg: &Cfg) -> Verdict {
    let (ck, _vk, mut rng, _pp) = match keys::<S>(cfg) {
        Ok(k) => k,
        Err(v) => return v,
    };
    let (lps, _) = polys::<S>(cfg, &mut rng);
    let res = catch(|| with_sym_rng(true, || PCOf::<S>::commit(&ck, &lps, Some(&mut rng))));
    match res {
        Ok(Ok(_)) => Verdict::viol("commit-accepted-bad-hiding-bound", format!("commit accepted hiding bound {:?} with supported hiding bound {}", cfg.polys[0].hiding, cfg.sz.hiding)),
        _ => Verdict::Hold,
    }
}

#[derive(Clone, Copy, Debug, PartialEq)]
pub enum Lookup {
    /// the query set names a polynomial that was never committed (batch_open and batch_check)
    UnknownLabel,
    /// the evaluation map lacks the entry of one query
    MissingEvaluation,
    /// the verifier's commitment list lacks a queried polynomial
    MissingCommitment,
}

pub fn lookups<S: Sch>(cfg: &Cfg, l: Lookup) -> Verdict {
    let mut w = match catch(|| build::<S>(cfg)) {
        Ok(Ok(w)) => w,
        _ => return Verdict::Discard("honest phase failed".into()),
    };
    let sp0 = sponge(cfg, 1);
    let (mut sp_p, mut sp_v) = (sp0.clone(), sp0.clone());
    let mut qs = w.query_set();
    let mut ev: Evaluations<PointOf<S>, SF> = w.evaluations();
    let honest_qs = qs.clone();
    match l {
        Lookup::UnknownLabel => {
            qs.insert(("ghost".to_string(), (w.points[0].0.clone(), w.points[0].1.clone())));
            ev.insert(("ghost".to_string(), w.points[0].1.clone()), SF::zero());
            // the prover must refuse
            if let Ok(Ok(_)) = catch(|| w.batch_open(&qs, &mut sp_p.clone())) {
                return Verdict::viol("batch-open-accepted-unknown-label", "batch_open produced a proof for a query on an unknown polynomial");
            }
        }
        Lookup::MissingEvaluation => {
            let k = ev.keys().next().cloned().unwrap();
            ev.remove(&k);
        }
        Lookup::MissingCommitment => {}
    }
    // honest proof for the honest part; the verifier is given the out-of-domain request
    let proof = match catch(|| w.batch_open(&honest_qs, &mut sp_p)) {
        Ok(Ok(p)) => p,
        _ => return Verdict::Discard("honest phase failed".into()),
    };
    let r = if l == Lookup::MissingCommitment {
        let comms: Vec<&LabeledCommitment<CommOf<S>>> = w.comms.iter().skip(1).collect();
        catch(|| PCOf::<S>::batch_check(&w.vk, comms, &qs, &ev, &proof, &mut sp_v, &mut StdRng::seed_from_u64(cfg.seed + 100)).map_err(|e| errname(&e)))
    } else {
        catch(|| w.batch_check(&qs, &ev, &proof, &mut sp_v, cfg.seed + 100))
    };
    match r {
        Ok(Ok(true)) => Verdict::viol("batch-check-accepted-out-of-domain", format!("{:?}: batch_check returned Ok(true)", l)),
        Ok(Ok(false)) if l != Lookup::MissingCommitment && false => Verdict::Hold,
        _ => Verdict::Hold,
    }
}

/// degenerate setup requests must fail
pub fn setup_degenerate(seed: u64) -> Verdict {
    let rng = &mut StdRng::seed_from_u64(seed);
    macro_rules! must_fail {
        ($e:expr, $what:expr) => {
            if let Ok(Ok(_)) = catch(|| $e) {
                return Verdict::viol("setup-accepted-degenerate", $what);
            }
        };
    }
    must_fail!(MarlinPC::setup(0, None, rng), "MarlinKZG10::setup(max_degree = 0)");
    must_fail!(SonicPC::setup(0, None, rng), "SonicKZG10::setup(max_degree = 0)");
    must_fail!(ark_poly_commit::kzg10::KZG10::<ToyPairing, UP>::setup(0, false, rng), "KZG10::setup(max_degree = 0)");
    must_fail!(Pst13PC::setup(0, Some(2), rng), "MarlinPST13::setup(max_degree = 0)");
    must_fail!(Pst13PC::setup(2, Some(0), rng), "MarlinPST13::setup(num_vars = 0)");
    must_fail!(Pst13PC::setup(2, None, rng), "MarlinPST13::setup(num_vars = None)");
    must_fail!(HyraxPCS::setup(1, None, rng), "HyraxPC::setup(num_vars = None)");
    must_fail!(HyraxPCS::setup(1, Some(3), rng), "HyraxPC::setup(odd num_vars)");
    if let Ok(_) = catch(|| MultilinearPC::<ToyPairing>::setup(0, rng)) {
        return Verdict::viol("setup-accepted-degenerate", "MultilinearPC::setup(num_vars = 0)");
    }
    // trim beyond the parameters
    let pp = MarlinPC::setup(3, None, rng).unwrap();
    must_fail!(MarlinPC::trim(&pp, 4, 0, None), "MarlinKZG10::trim(supported > max)");
    let pp = SonicPC::setup(3, None, rng).unwrap();
    must_fail!(SonicPC::trim(&pp, 4, 0, None), "SonicKZG10::trim(supported > max)");
    must_fail!(SonicPC::trim(&pp, 2, 0, Some(&[3])), "SonicKZG10::trim(bound > supported)");
    let pp = Pst13PC::setup(2, Some(2), rng).unwrap();
    must_fail!(Pst13PC::trim(&pp, 3, 0, None), "MarlinPST13::trim(supported > max)");
    let pp = IpaPC::setup(3, None, rng).unwrap();
    must_fail!(IpaPC::trim(&pp, 4, 0, None), "InnerProductArgPC::trim(supported > max)");
    Verdict::Hold
}

/// wrong number of variables: the whole commit -> open -> check flow must not end in Ok(true)
pub fn wrong_num_vars(which: usize, seed: u64) -> Verdict {
    let rng = &mut StdRng::seed_from_u64(seed);
    let e = |n: usize, off: u64| -> Vec<SF> { (0..n).map(|i| SF::from(3 * i as u64 + 7 + off)).collect() };
    let accepted = match which {
        // Hyrax: key for 4 variables, polynomial with 2
        0 => {
            let pp = HyraxPCS::setup(1, Some(4), rng).unwrap();
            let (ck, vk) = HyraxPCS::trim(&pp, 1, 1, None).unwrap();
            let lp = LabeledPolynomial::new("p".into(), ML::from_evaluations_vec(2, e(4, 0)), None, None);
            let pt = vec![SF::from(5u8), SF::from(9u8)];
            flow::<HyraxPCS, ML>(&ck, &vk, &lp, &pt, rng)
        }
        // Hyrax: key for 2 variables, polynomial with 4
        1 => {
            let pp = HyraxPCS::setup(1, Some(2), rng).unwrap();
            let (ck, vk) = HyraxPCS::trim(&pp, 1, 1, None).unwrap();
            let lp = LabeledPolynomial::new("p".into(), ML::from_evaluations_vec(4, e(16, 0)), None, None);
            let pt: Vec<SF> = (0..4).map(|i| SF::from(5 + i as u64)).collect();
            flow::<HyraxPCS, ML>(&ck, &vk, &lp, &pt, rng)
        }
        // Hyrax: point with another number of coordinates than the polynomial
        2 => {
            let pp = HyraxPCS::setup(1, Some(2), rng).unwrap();
            let (ck, vk) = HyraxPCS::trim(&pp, 1, 1, None).unwrap();
            let lp = LabeledPolynomial::new("p".into(), ML::from_evaluations_vec(2, e(4, 0)), None, None);
            let pt: Vec<SF> = (0..4).map(|i| SF::from(5 + i as u64)).collect();
            flow::<HyraxPCS, ML>(&ck, &vk, &lp, &pt, rng)
        }
        // PST13: parameters for 2 variables, polynomial declared over 3 (using the third)
        3 => {
            let pp = Pst13PC::setup(2, Some(2), rng).unwrap();
            let (ck, vk) = Pst13PC::trim(&pp, 2, 0, None).unwrap();
            let p = MP::from_coefficients_vec(3, vec![(SF::from(3u8), SparseTerm::new(vec![(0, 1)])), (SF::from(4u8), SparseTerm::new(vec![(2, 1)]))]);
            let lp = LabeledPolynomial::new("p".into(), p, None, None);
            let pt: Vec<SF> = (0..3).map(|i| SF::from(5 + i as u64)).collect();
            flow::<Pst13PC, MP>(&ck, &vk, &lp, &pt, rng)
        }
        // PST13: point shorter than the number of variables
        4 => {
            let pp = Pst13PC::setup(2, Some(2), rng).unwrap();
            let (ck, vk) = Pst13PC::trim(&pp, 2, 0, None).unwrap();
            let p = MP::from_coefficients_vec(2, vec![(SF::from(3u8), SparseTerm::new(vec![(0, 1)])), (SF::from(4u8), SparseTerm::new(vec![(1, 1)]))]);
            let lp = LabeledPolynomial::new("p".into(), p, None, None);
            let pt: Vec<SF> = vec![SF::from(5u8)];
            flow::<Pst13PC, MP>(&ck, &vk, &lp, &pt, rng)
        }
        // multilinear PST: `open` alone, polynomial with fewer variables than the trimmed key (the point has the
        // key's number of coordinates, then the polynomial's): a proof must not be handed out
        6 | 7 => {
            let pp = MultilinearPC::<ToyPairing>::setup(3, rng);
            let (ck, _vk) = MultilinearPC::<ToyPairing>::trim(&pp, 3);
            let p = ML::from_evaluations_vec(2, e(4, 0));
            let pt: Vec<SF> = (0..if which == 6 { 3 } else { 2 }).map(|i| SF::from(5 + i as u64)).collect();
            return match catch(|| MultilinearPC::open(&ck, &p, &pt)) {
                Ok(_) => Verdict::viol("proof-for-wrong-num-vars", format!("scenario {}: MultilinearPC::open returned a proof for a 2-variable polynomial under a 3-variable key", which)),
                Err(_) => Verdict::Hold,
            };
        }
        // multilinear PST: polynomial with fewer variables than the trimmed key
        _ => {
            let pp = MultilinearPC::<ToyPairing>::setup(3, rng);
            let (ck, vk) = MultilinearPC::<ToyPairing>::trim(&pp, 3);
            let p = ML::from_evaluations_vec(2, e(4, 0));
            let pt: Vec<SF> = (0..3).map(|i| SF::from(5 + i as u64)).collect();
            match catch(|| {
                let c = MultilinearPC::commit(&ck, &p);
                let pr = MultilinearPC::open(&ck, &p, &pt);
                MultilinearPC::check(&vk, &c, &pt, SF::from(1u8), &pr)
            }) {
                Ok(b) => b,
                Err(_) => false,
            }
        }
    };
    if accepted {
        Verdict::viol("accepted-wrong-num-vars", format!("scenario {}: commit, open and check all succeeded with a mismatched number of variables", which))
    } else {
        Verdict::Hold
    }
}

fn flow<PC: PolynomialCommitment<SF, P>, P: ark_poly::Polynomial<SF>>(ck: &PC::CommitterKey, vk: &PC::VerifierKey, lp: &LabeledPolynomial<SF, P>, pt: &P::Point, rng: &mut StdRng) -> bool {
    use crate::engine::sponge::RoSponge;
    use ark_crypto_primitives::sponge::CryptographicSponge;
    let r = catch(|| -> Result<bool, String> {
        let (c, s) = PC::commit(ck, [lp], Some(rng)).map_err(|e| errname(&e))?;
        let mut sp = RoSponge::new(&1);
        let pr = PC::open(ck, [lp], &c, pt, &mut sp, &s, Some(rng)).map_err(|e| errname(&e))?;
        let v = catch(|| lp.evaluate(pt)).unwrap_or(SF::zero());
        let mut sv = RoSponge::new(&1);
        PC::check(vk, &c, pt, [v], &pr, &mut sv, Some(rng)).map_err(|e| errname(&e))
    });
    matches!(r, Ok(Ok(true)))
}

/// Hyrax: polynomial and commitment lists with mismatched labels
pub fn mismatched_labels(cfg: &Cfg) -> Verdict {
    let mut w = match catch(|| build::<Hyrax>(cfg)) {
        Ok(Ok(w)) => w,
        _ => return Verdict::Discard("honest phase failed".into()),
    };
    let sp0 = sponge(cfg, 1);
    let mut sp_p = sp0.clone();
    // commitments passed in the other order than the polynomials
    let lps: Vec<&LabeledPolynomial<SF, ML>> = vec![&w.lps[0], &w.lps[1]];
    let comms: Vec<&LabeledCommitment<CommOf<Hyrax>>> = vec![&w.comms[1], &w.comms[0]];
    let states: Vec<&StateOf<Hyrax>> = vec![&w.states[0], &w.states[1]];
    let pt = w.points[0].1.clone();
    let rng = &mut w.rng;
    let r = catch(|| with_sym_rng(true, || HyraxPCS::open(&w.ck, lps, comms, &pt, &mut sp_p, states, Some(rng))));
    let _ = QuerySet::<SF>::new();
    match r {
        Ok(Ok(_)) => Verdict::viol("open-accepted-mismatched-labels", "Hyrax open accepted polynomial/commitment lists with mismatched labels"),
        _ => Verdict::Hold,
    }
}

/// Ligero parameter sets the field cannot serve (the Reed-Solomon domain needs rho_inv <= two-adicity in the
/// library's accounting) are refused by `trim`; usable ones are accepted and the three keys report the same
/// maximum / supported degree; and the OptionalRng wrapper used for "no RNG in a non-hiding context".
pub fn ligero_unusable_params() -> Verdict {
    use ark_ff::FftField;
    use ark_poly_commit::linear_codes::LigeroPCParams;
    use ark_poly_commit::{PCCommitterKey, PCUniversalParams, PCVerifierKey};
    let ta = <SF as FftField>::TWO_ADICITY as usize;
    for rho_inv in [ta + 1, ta + 2, 2 * ta, 200] {
        let pp: LigeroPCParams<SF, crate::engine::ro::RoMT, crate::engine::ro::RoColHash> = LigeroPCParams::new(128, rho_inv, true, (), (), ());
        if PCUniversalParams::max_degree(&pp) != 0 {
            return Verdict::viol("ligero-max-degree", format!("rho_inv {} over a field of two-adicity {}: parameters report max_degree {}", rho_inv, ta, PCUniversalParams::max_degree(&pp)));
        }
        match catch(|| LigeroUniPC::trim(&pp, 4, 0, None)) {
            Ok(Err(_)) | Err(_) => {}
            Ok(Ok(_)) => return Verdict::viol("trim-accepted-unusable-params", format!("univariate Ligero trim accepted rho_inv {} over a field of two-adicity {}", rho_inv, ta)),
        }
        match catch(|| LigeroMlPC::trim(&pp, 4, 0, None)) {
            Ok(Err(_)) | Err(_) => {}
            Ok(Ok(_)) => return Verdict::viol("trim-accepted-unusable-params", format!("multilinear Ligero trim accepted rho_inv {} over a field of two-adicity {}", rho_inv, ta)),
        }
    }
    for rho_inv in [2usize, 4, 16, ta - 1, ta] {
        let pp: LigeroPCParams<SF, crate::engine::ro::RoMT, crate::engine::ro::RoColHash> = LigeroPCParams::new(128, rho_inv, true, (), (), ());
        let (ck, vk) = match catch(|| LigeroUniPC::trim(&pp, 4, 0, None)) {
            Ok(Ok(k)) => k,
            // rho_inv == two-adicity leaves a maximum degree of 1: refusing is the scheme's choice
            _ if rho_inv == ta => continue,
            _ => return Verdict::viol("trim-refused-usable-params", format!("univariate Ligero trim refused rho_inv {}", rho_inv)),
        };
        let m = PCUniversalParams::max_degree(&pp);
        if PCCommitterKey::max_degree(&ck) != m || PCVerifierKey::max_degree(&vk) != m || PCCommitterKey::supported_degree(&ck) != m || PCVerifierKey::supported_degree(&vk) != m {
            return Verdict::viol("ligero-degree-reports", format!("rho_inv {}: parameters report max_degree {}, committer key {}/{}, verifier key {}/{}", rho_inv, m, PCCommitterKey::max_degree(&ck), PCCommitterKey::supported_degree(&ck), PCVerifierKey::max_degree(&vk), PCVerifierKey::supported_degree(&vk)));
        }
    }
    // OptionalRng: with a generator it is that generator; without one every draw aborts or errs
    {
        use ark_poly_commit::optional_rng::OptionalRng;
        use ark_std::rand::RngCore;
        let mut a = OptionalRng(Some(StdRng::seed_from_u64(5)));
        let mut b = StdRng::seed_from_u64(5);
        let (mut x, mut y) = ([0u8; 9], [0u8; 9]);
        a.fill_bytes(&mut x);
        b.fill_bytes(&mut y);
        let same = a.next_u32() == b.next_u32() && a.next_u64() == b.next_u64() && x == y && a.try_fill_bytes(&mut x).is_ok() == b.try_fill_bytes(&mut y).is_ok() && x == y;
        let mut c: OptionalRng<StdRng> = StdRng::seed_from_u64(5).into();
        let mut d = StdRng::seed_from_u64(5);
        if !same || c.next_u64() != d.next_u64() {
            return Verdict::viol("optional-rng", "OptionalRng(Some(r)) does not produce r's stream");
        }
        let mut buf = [0u8; 4];
        let none_ok = catch(|| OptionalRng::<StdRng>(None).next_u32()).is_ok() || catch(|| OptionalRng::<StdRng>(None).next_u64()).is_ok() || catch(|| OptionalRng::<StdRng>(None).fill_bytes(&mut [0u8; 4])).is_ok() || OptionalRng::<StdRng>(None).try_fill_bytes(&mut buf).is_ok();
        if none_ok {
            return Verdict::viol("optional-rng-none-draws", "OptionalRng(None) produced randomness");
        }
    }
    Verdict::Hold
}
