//! C01 completeness: honest commit -> open -> check (single and batched) accepts.
use super::common::*;
use crate::engine::explore::Verdict;
use crate::schemes::Sch;

#[derive(Clone, Copy, Debug, PartialEq)]
pub enum Mode {
    Single,
    Batch,
}

pub fn honest<S: Sch>(cfg: &Cfg, mode: Mode) -> Verdict {
    let mut w = match build::<S>(cfg) {
        Ok(w) => w,
        Err(v) => return v,
    };
    let sp0 = sponge(cfg, 1);
    let (mut sp_p, mut sp_v) = (sp0.clone(), sp0.clone());
    match mode {
        Mode::Single => {
            for k in 0..w.points.len() {
                let mut idx = w.at_point(k);
                if idx.is_empty() {
                    continue;
                }
                // single openings pair polynomials and commitments by position: with both flags set the prover and the
                // verifier list them in the same, non-sorted (descending label) order
                if cfg.rev_prover && cfg.rev_verifier {
                    idx.reverse();
                }
                let proof = match w.open(&idx, k, &mut sp_p) {
                    Ok(p) => p,
                    Err(e) => return Verdict::viol(&format!("open-err:{}", e), e.clone()),
                };
                let pt = w.points[k].1.clone();
                let vals: Vec<_> = idx.iter().map(|i| w.lps[*i].evaluate(&pt)).collect();
                match w.check(&idx, &pt, vals, &proof, &mut sp_v) {
                    Ok(true) => {}
                    Ok(false) => return Verdict::viol("rejected", format!("honest proof rejected at point {}", k)),
                    Err(e) => return Verdict::viol(&format!("check-err:{}", e), e.clone()),
                }
            }
        }
        Mode::Batch => {
            let qs = w.query_set();
            let ev = w.evaluations();
            let proof = match w.batch_open(&qs, &mut sp_p) {
                Ok(p) => p,
                Err(e) => return Verdict::viol(&format!("batch-open-err:{}", e), e.clone()),
            };
            match w.batch_check(&qs, &ev, &proof, &mut sp_v, cfg.seed + 100) {
                Ok(true) => {}
                Ok(false) => return Verdict::viol("rejected", "honest batch proof rejected"),
                Err(e) => return Verdict::viol(&format!("batch-check-err:{}", e), e.clone()),
            }
        }
    }
    Verdict::Hold
}
