//! C13: linear-code proofs carry the column openings their security level needs.
use super::c08::LinCommParts;
use super::common::*;
use crate::engine::explore::{sym, Verdict};
use crate::engine::ro::RoMT;
use crate::engine::sf::SF;
use crate::schemes::*;
use ark_ff::{PrimeField, Zero};
use ark_poly_commit::linear_codes::{verif_hooks, LinCodePCProof, LinearEncode};
use ark_poly_commit::PolynomialCommitment;
use num_bigint::BigUint;

/// exact minimal t with 2*(1-d/2)^t + n/|F| <= 2^-lambda, or None if no t exists
pub fn exact_t(lambda: usize, d: (usize, usize), n: u128, cap: usize) -> Option<usize> {
    let f: BigUint = <SF as PrimeField>::MODULUS.b.into();
    let a = BigUint::from(2 * d.1 - d.0);
    let b = BigUint::from(2 * d.1);
    let two_l = BigUint::from(1u8) << lambda;
    // n * 2^lambda < |F| is necessary
    if BigUint::from(n) * &two_l >= f {
        return None;
    }
    if a.is_zero_big() {
        return Some(1);
    }
    let (mut at, mut bt) = (BigUint::from(1u8), BigUint::from(1u8));
    for t in 0..=cap {
        // 2 * A^t * |F| * 2^l + n * B^t * 2^l <= B^t * |F|
        let lhs = BigUint::from(2u8) * &at * &f * &two_l + BigUint::from(n) * &bt * &two_l;
        if lhs <= &bt * &f {
            return Some(t);
        }
        at *= &a;
        bt *= &b;
    }
    None
}
trait IsZeroBig {
    fn is_zero_big(&self) -> bool;
}
impl IsZeroBig for BigUint {
    fn is_zero_big(&self) -> bool {
        *self == BigUint::from(0u8)
    }
}

/// calculate_t against the exact rational bound over a parameter grid (concrete oracle)
pub fn t_minimal(thorough: bool) -> Verdict {
    // the upper end (lambda close to the field's bit size) is where the n/|F| term of the bound matters
    let lambdas: Vec<usize> = if thorough { vec![1, 2, 8, 20, 40, 64, 80, 100, 128, 160, 200, 240, 244, 246, 247, 248, 249, 250, 251, 252] } else { vec![1, 8, 40, 100, 128, 200, 244, 248, 250, 252] };
    let dists: Vec<(usize, usize)> = vec![(1, 2), (3, 4), (7, 8), (15, 16), (61000, 1521000), (1, 10), (1, 100)];
    let ns: Vec<u128> = vec![1, 2, 16, 195, 1000, 1 << 20, 1 << 40];
    for l in &lambdas {
        for d in &dists {
            for n in &ns {
                if *n > usize::MAX as u128 {
                    continue;
                }
                let lib = verif_hooks::calculate_t::<SF>(*l, *d, *n as usize);
                let cap = 60000;
                let want = exact_t(*l, *d, *n, cap);
                match (lib, want) {
                    (Ok(t), Some(w)) => {
                        let w = w.min(*n as usize);
                        if t != w {
                            // tolerate nothing silently: report with both numbers
                            return Verdict::viol("t-not-minimal", format!("calculate_t(lambda={}, distance={}/{}, n={}) = {} but the smallest t satisfying 2(1-d/2)^t + n/|F| <= 2^-lambda (capped at n) is {}", l, d.0, d.1, n, t, w));
                        }
                    }
                    (Ok(t), None) => return Verdict::viol("t-for-unusable-parameters", format!("calculate_t(lambda={}, distance={}/{}, n={}) = {} although no t satisfies the bound", l, d.0, d.1, n, t)),
                    (Err(_), Some(w)) => {
                        if w <= cap {
                            return Verdict::viol("t-refused-usable-parameters", format!("calculate_t(lambda={}, distance={}/{}, n={}) is an error although t = {} satisfies the bound", l, d.0, d.1, n, w));
                        }
                    }
                    (Err(_), None) => {}
                }
            }
        }
    }
    // degenerate distances are errors
    if verif_hooks::calculate_t::<SF>(128, (0, 1), 100).is_ok() {
        return Verdict::viol("t-for-zero-distance", "calculate_t accepted a relative distance of 0");
    }
    if verif_hooks::calculate_t::<SF>(300, (1, 2), 100).is_ok() {
        return Verdict::viol("t-for-unusable-parameters", "calculate_t accepted lambda = 300 over a 255-bit field");
    }
    Verdict::Hold
}

/// an honest proof opens exactly t columns with t paths, at positions inside the codeword, and verifies
pub fn cols_count<S: Sch>(cfg: &Cfg, distance: (usize, usize), sec: usize) -> Verdict
where
    S::PC: PolynomialCommitment<SF, S::P, Proof = Vec<LinCodePCProof<SF, RoMT>>>,
    CommOf<S>: LinCommParts,
{
    let mut w = match build::<S>(cfg) {
        Ok(w) => w,
        Err(v) => return v,
    };
    let sp0 = sponge(cfg, 1);
    let (mut sp_p, mut sp_v) = (sp0.clone(), sp0.clone());
    // every polynomial of the configuration is opened in one call: each proof is judged against its own codeword
    let idx: Vec<usize> = (0..w.lps.len()).collect();
    let proof: Vec<LinCodePCProof<SF, RoMT>> = match w.open(&idx, 0, &mut sp_p) {
        Ok(p) => p,
        Err(e) => return Verdict::viol(&format!("open-err:{}", e), e.clone()),
    };
    if proof.len() != idx.len() {
        return Verdict::viol("wrong-shape", format!("{} proofs for {} polynomials", proof.len(), idx.len()));
    }
    for i in idx.iter().copied() {
        let (n_rows, n_cols, n_ext, _) = w.comms[i].commitment().parts();
        let t = match verif_hooks::calculate_t::<SF>(sec, distance, n_ext) {
            Ok(t) => t,
            Err(_) => return Verdict::viol("t-error", "calculate_t failed for the scheme's own parameters"),
        };
        let want = exact_t(sec, distance, n_ext as u128, 60000).map(|x| x.min(n_ext));
        if Some(t) != want {
            return Verdict::viol("t-not-minimal", format!("t = {} for codeword length {}, exact minimum {:?}", t, n_ext, want));
        }
        let (paths, pv, cols, _) = proof[i].verif_parts();
        if cols.len() != t || paths.len() != t {
            return Verdict::viol("wrong-number-of-columns", format!("proof {} opens {} columns with {} paths, the security level needs t = {} (codeword length {})", i, cols.len(), paths.len(), t, n_ext));
        }
        if pv.len() != n_cols || cols.iter().any(|c| c.len() != n_rows) {
            return Verdict::viol("wrong-shape", format!("v has {} entries (n_cols = {}), column lengths {:?} (n_rows = {})", pv.len(), n_cols, cols.iter().map(|c| c.len()).collect::<Vec<_>>(), n_rows));
        }
        if paths.iter().any(|p| p.leaf_index >= n_ext) {
            return Verdict::viol("index-out-of-codeword", "an opened position lies outside the codeword");
        }
    }
    let pt = w.points[0].1.clone();
    let v: Vec<SF> = idx.iter().map(|i| w.lps[*i].evaluate(&pt)).collect();
    match w.check(&idx, &pt, v, &proof, &mut sp_v) {
        Ok(true) => Verdict::Hold,
        r => Verdict::viol("rejected", format!("{:?}", r)),
    }
}

/// E(a*x + b*y) == a*E(x) + b*E(y) and len(E(x)) == declared codeword length
pub fn encode_linear<S: Sch, L: LinearEncode<SF, RoMT, S::P, crate::engine::ro::RoColHash>>(cfg: &Cfg, m: usize) -> Verdict
where
    S::PC: PolynomialCommitment<SF, S::P, CommitterKey = L::LinCodePCParams>,
    CommOf<S>: LinCommParts,
{
    let w = match build::<S>(cfg) {
        Ok(w) => w,
        Err(v) => return v,
    };
    let (_, n_cols, n_ext, _) = w.comms[0].commitment().parts();
    if n_cols != m {
        return Verdict::Discard(format!("driver: message length {} != n_cols {}", m, n_cols));
    }
    let (a, b) = (sym("a"), sym("b"));
    let x: Vec<SF> = (0..m).map(|i| sym(&format!("x{}", i))).collect();
    let y: Vec<SF> = (0..m).map(|i| sym(&format!("y{}", i))).collect();
    let z: Vec<SF> = x.iter().zip(y.iter()).map(|(p, q)| a * *p + b * *q).collect();
    let (ex, ey, ez) = match (L::encode(&x, &w.ck), L::encode(&y, &w.ck), L::encode(&z, &w.ck)) {
        (Ok(p), Ok(q), Ok(r)) => (p, q, r),
        _ => return Verdict::viol("encode-err", "encode failed on a message of the declared length"),
    };
    if ex.len() != n_ext || ey.len() != n_ext || ez.len() != n_ext {
        return Verdict::viol("encode-length", format!("encode returned {} symbols, declared codeword length {}", ex.len(), n_ext));
    }
    for k in 0..n_ext {
        if ez[k] != a * ex[k] + b * ey[k] {
            return Verdict::viol("encode-not-linear", format!("codeword symbol {} of a*x+b*y is not a*E(x)+b*E(y)", k));
        }
    }
    Verdict::Hold
}

/// the relative distance reported by the parameter objects is the code's distance:
/// (rho_inv - 1)/rho_inv for Reed-Solomon, beta/rho_inv for Brakedown (as exact fractions), for
/// default and for custom parameter sets (input-free: concrete)
pub fn distances(seed: u64) -> Verdict {
    use crate::engine::ro::{RoColHash, RoMT};
    use ark_poly_commit::linear_codes::{BrakedownPCParams, LigeroPCParams, LinCodeParametersInfo};
    use ark_std::rand::{rngs::StdRng, SeedableRng};
    let same = |a: (usize, usize), b: (usize, usize)| (a.0 as u128) * (b.1 as u128) == (b.0 as u128) * (a.1 as u128) && a.1 != 0;
    for rho in [2usize, 3, 4, 8, 16] {
        let pp: LigeroPCParams<SF, RoMT, RoColHash> = LigeroPCParams::new(128, rho, true, (), (), ());
        if !same(pp.distance(), (rho - 1, rho)) {
            return Verdict::viol("distance-wrong", format!("Ligero rho_inv = {}: distance() = {:?}, expected {}/{}", rho, pp.distance(), rho - 1, rho));
        }
        if pp.sec_param() != 128 || !pp.check_well_formedness() {
            return Verdict::viol("params-report", "Ligero parameter accessors misreport");
        }
    }
    let dflt: BrakedownPCParams<SF, RoMT, RoColHash> = BrakedownPCParams::default(&mut StdRng::seed_from_u64(seed), 16, true, (), (), ());
    if !same(dflt.distance(), (61 * 1000, 1000 * 1521)) {
        return Verdict::viol("distance-wrong", format!("Brakedown defaults: distance() = {:?}, expected beta/rho_inv = 61/1521", dflt.distance()));
    }
    for (b, r) in [((1usize, 10usize), (3usize, 2usize)), ((61, 1000), (1521, 1000)), ((2, 7), (5, 3)), ((1, 20), (2, 1))] {
        let pp: BrakedownPCParams<SF, RoMT, RoColHash> = BrakedownPCParams::new(8, (1, 5), b, r, 30, 4, 4, vec![], vec![], vec![], vec![], true, (), (), ());
        // beta / rho_inv = (b0/b1) / (r0/r1) = b0*r1 / (b1*r0)
        if !same(pp.distance(), (b.0 * r.1, b.1 * r.0)) {
            return Verdict::viol("distance-wrong", format!("Brakedown beta = {}/{}, rho_inv = {}/{}: distance() = {:?}, expected {}/{}", b.0, b.1, r.0, r.1, pp.distance(), b.0 * r.1, b.1 * r.0));
        }
    }
    Verdict::Hold
}

/// Brakedown: the library's iterative encoder against the paper's recursion (`bdref::encode_ref`) on a fully
/// symbolic message: equal symbol by symbol, systematic, and of the declared length ceil(r*m).
pub fn brakedown_encode_ref<S: Sch<PC = BrakedownPC, P = ML>>(cfg: &Cfg) -> Verdict {
    use super::bdref;
    use ark_poly_commit::linear_codes::MultilinearBrakedown;
    type L = MultilinearBrakedown<SF, RoMT, ML, crate::engine::ro::RoColHash>;
    let w = match build::<S>(cfg) {
        Ok(w) => w,
        Err(v) => return v,
    };
    let p = match bdref::mirror(&w.ck) {
        Ok(p) => p,
        Err(e) => return Verdict::Discard(format!("driver: {}", e)),
    };
    let (n_rows, n_cols, n_ext, _) = w.comms[0].commitment().parts();
    if n_cols != p.m || n_rows != p.n || n_ext != p.m_ext {
        return Verdict::viol("shape", format!("commitment metadata ({}, {}, {}) differs from the parameters' (n, m, m_ext) = ({}, {}, {})", n_rows, n_cols, n_ext, p.n, p.m, p.m_ext));
    }
    if p.m_ext != bdref::ceil_mul(p.m, p.rho_inv) {
        return Verdict::viol("codeword-length", format!("declared codeword length {} for messages of length {}: the code has length ceil(r*m) = {}", p.m_ext, p.m, bdref::ceil_mul(p.m, p.rho_inv)));
    }
    let x: Vec<SF> = (0..p.m).map(|i| sym(&format!("x{}", i))).collect();
    let lib = match catch(|| <L as LinearEncode<SF, RoMT, ML, crate::engine::ro::RoColHash>>::encode(&x, &w.ck)) {
        Ok(Ok(c)) => c,
        Ok(Err(e)) => return Verdict::viol("encode-err", format!("{:?}", e)),
        Err(e) => return Verdict::viol("encode-panic", e),
    };
    let reference = match bdref::encode_ref(&p, &x, 0) {
        Ok(c) => c,
        Err(e) => return Verdict::viol("code-structure", e),
    };
    if lib.len() != reference.len() || lib.len() != p.m_ext {
        return Verdict::viol("encode-length", format!("encode returned {} symbols, the reference {} and the declared length is {}", lib.len(), reference.len(), p.m_ext));
    }
    for k in 0..lib.len() {
        if lib[k] != reference[k] {
            return Verdict::viol("encode-differs", format!("codeword symbol {} differs from the recursive encoder's (message length {}, {} recursion levels)", k, p.m, p.a_mats.len()));
        }
    }
    // a message of another length is refused
    let short: Vec<SF> = x[..p.m - 1].to_vec();
    if let Ok(Ok(_)) = catch(|| <L as LinearEncode<SF, RoMT, ML, crate::engine::ro::RoColHash>>::encode(&short, &w.ck)) {
        return Verdict::viol("encode-wrong-length-accepted", "encode accepted a message shorter than the declared message length");
    }
    Verdict::Hold
}

/// Brakedown parameter generation (input-free apart from the RNG seed; concrete): the recursion's dimension
/// chain, exactly d non-zero entries per row in distinct columns, non-zero values, and the density of the A
/// matrices against fig. 2's c_n.
pub fn brakedown_matrices(seed: u64, nvs: &[usize]) -> Verdict {
    use super::bdref;
    use ark_poly_commit::linear_codes::BrakedownPCParams;
    use ark_std::rand::{rngs::StdRng, SeedableRng};
    for &nv in nvs {
        for s in 0..3u64 {
            let pp: BrakedownPCParams<SF, RoMT, crate::engine::ro::RoColHash> = BrakedownPCParams::default(&mut StdRng::seed_from_u64(seed.wrapping_mul(77).wrapping_add(s)), 1 << nv, true, (), (), ());
            let p = match bdref::mirror(&pp) {
                Ok(p) => p,
                Err(e) => return Verdict::Discard(format!("driver: {}", e)),
            };
            if p.n * p.m < (1 << nv) {
                return Verdict::viol("matrix-too-small", format!("{} variables: a {}x{} coefficient matrix", nv, p.n, p.m));
            }
            // the dimension chain is what the recursion on a zero message checks
            let zero = vec![SF::zero(); p.m];
            if let Err(e) = bdref::encode_ref(&p, &zero, 0) {
                return Verdict::viol("code-structure", format!("{} variables: {}", nv, e));
            }
            if p.a_dims.len() != p.a_mats.len() || p.b_dims.len() != p.b_mats.len() {
                return Verdict::viol("code-structure", "dimension lists and matrix lists differ in length");
            }
            for (which, mats, dims) in [("A", &p.a_mats, &p.a_dims), ("B", &p.b_mats, &p.b_dims)] {
                for (lvl, mat) in mats.iter().enumerate() {
                    if (mat.n, mat.m, mat.d) != dims[lvl] {
                        return Verdict::viol("code-structure", format!("{}_{} is {}x{} with density {}, its dimension record says {:?}", which, lvl, mat.n, mat.m, mat.d, dims[lvl]));
                    }
                    let d = match mat.dense() {
                        Ok(d) => d,
                        Err(e) => return Verdict::viol("sparse-matrix", format!("{}_{}: {}", which, lvl, e)),
                    };
                    if mat.d == 0 || mat.d > mat.m {
                        return Verdict::viol("row-density", format!("{}_{}: density {} for {} columns", which, lvl, mat.d, mat.m));
                    }
                    for (i, row) in d.iter().enumerate() {
                        let nz = row.iter().filter(|e| e.is_some()).count();
                        if nz != mat.d {
                            return Verdict::viol("row-density", format!("{} variables, {}_{}: row {} has {} entries, the declared density is {}", nv, which, lvl, i, nz, mat.d));
                        }
                        if row.iter().any(|e| matches!(e, Some(v) if v.v.is_zero())) {
                            return Verdict::viol("row-density", format!("{}_{}: row {} stores a zero entry", which, lvl, i));
                        }
                    }
                    if which == "A" {
                        let want = core::cmp::min(bdref::paper_cn(mat.n, p.alpha, p.beta), mat.m);
                        if mat.d != want {
                            return Verdict::viol("row-density", format!("{} variables, A_{} ({}x{}): density {} but c_n = {}", nv, lvl, mat.n, mat.m, mat.d, want));
                        }
                    }
                }
            }
        }
    }
    Verdict::Hold
}
