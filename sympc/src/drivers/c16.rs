//! C16: public algebraic helpers satisfy their defining identities.
use crate::engine::explore::{sym, Verdict};
use crate::engine::sf::SF;
use crate::schemes::{Marlin, Sch, Size};
use ark_ff::{One, Zero};
use ark_poly_commit::{evaluate_query_set, ipa_pc::SuccinctCheckPolynomial, LCTerm, LabeledPolynomial, LinearCombination, QuerySet};

fn lc_value(lc: &LinearCombination<SF>, evals: &[(String, SF)]) -> SF {
    let mut acc = SF::zero();
    for (c, t) in lc.iter() {
        let e = match t {
            LCTerm::One => SF::one(),
            LCTerm::PolyLabel(l) => evals.iter().find(|(n, _)| n == l).map(|x| x.1).unwrap_or(SF::zero()),
        };
        acc += *c * e;
    }
    acc
}

/// every operator sequence of length `len` over the 7 operators, symbolic operands
pub fn lc_ops(len: usize, mutate: bool) -> Verdict {
    let evals: Vec<(String, SF)> = (0..3).map(|i| (format!("p{}", i), sym(&format!("e{}", i)))).collect();
    let other = LinearCombination::new("o", vec![(sym("o0"), LCTerm::from("p1")), (sym("o1"), LCTerm::from("p2")), (sym("o2"), LCTerm::One)]);
    let base = LinearCombination::new("b", vec![(sym("b0"), LCTerm::from("p0")), (sym("b1"), LCTerm::from("p1")), (sym("b2"), LCTerm::One)]);
    let cs: Vec<SF> = (0..len).map(|i| sym(&format!("c{}", i))).collect();
    let ov = lc_value(&other, &evals);
    let total = 7usize.pow(len as u32);
    for code in 0..total {
        let mut lc = base.clone();
        let mut expect = lc_value(&base, &evals);
        let mut k = code;
        let mut desc = String::new();
        for step in 0..len {
            let op = k % 7;
            k /= 7;
            let c = cs[step];
            match op {
                0 => { lc += (c, &other); expect += c * ov; desc.push_str("+=(c,lc) "); }
                1 => { lc -= (c, &other); expect -= c * ov; desc.push_str("-=(c,lc) "); }
                2 => { lc += &other; expect += ov; desc.push_str("+=lc "); }
                3 => { lc -= &other; expect -= ov; desc.push_str("-=lc "); }
                4 => { lc += c; expect += c; desc.push_str("+=c "); }
                5 => { lc -= c; expect -= c; desc.push_str("-=c "); }
                _ => { lc *= c; expect *= c; desc.push_str("*=c "); }
            }
        }
        let got = lc_value(&lc, &evals) + if mutate && code == total - 1 { SF::one() } else { SF::zero() };
        if got != expect {
            return Verdict::viol("lc-ops", format!("sequence [{}] changes the meaning of the combination", desc.trim()));
        }
    }
    Verdict::Hold
}

/// evaluate_query_set returns p_label(point) for every query, with shared labels / points
pub fn eval_qs() -> Verdict {
    let sz = Size::uni(4, 3, 0);
    let mut lps = vec![];
    let mut coeffs = vec![];
    for i in 0..2 {
        let c: Vec<SF> = (0..3).map(|j| sym(&format!("p{}c{}", i, j))).collect();
        lps.push(LabeledPolynomial::new(format!("p{}", i), Marlin::poly(&sz, c.clone()), None, None));
        coeffs.push(c);
    }
    let pts = [sym("z0"), sym("z1")];
    let mut qs = QuerySet::new();
    // label "a" carries two different points (and (p1, z1) is reachable only through it),
    // label "b" is shared by two polynomials at one point
    for (pi, zi, lab) in [(0usize, 0usize, "a"), (1, 1, "a"), (0, 1, "b"), (1, 0, "c"), (0, 0, "c")] {
        qs.insert((format!("p{}", pi), (lab.to_string(), pts[zi])));
    }
    let ev = evaluate_query_set(&lps, &qs);
    for (label, (_, z)) in &qs {
        let pi: usize = label[1..].parse().unwrap();
        let want = Marlin::ref_eval(&sz, &coeffs[pi], &[*z]);
        match ev.get(&(label.clone(), *z)) {
            Some(v) if *v == want => {}
            Some(_) => return Verdict::viol("eval-qs", format!("wrong evaluation for {}", label)),
            None => return Verdict::viol("eval-qs-missing", format!("no evaluation for {}", label)),
        }
    }
    Verdict::Hold
}

pub fn succinct(k: usize) -> Verdict {
    let ch: Vec<SF> = (0..k).map(|i| sym(&format!("u{}", i))).collect();
    let z = sym("z");
    let sp = SuccinctCheckPolynomial(ch);
    let co = sp.compute_coeffs();
    if co.len() != 1 << k {
        return Verdict::viol("succinct-len", format!("compute_coeffs returned {} coefficients for k={}", co.len(), k));
    }
    let mut acc = SF::zero();
    for c in co.iter().rev() {
        acc = acc * z + c;
    }
    Verdict::check(sp.evaluate(z) == acc, "succinct", format!("evaluate(z) != Horner(compute_coeffs(), z) for k={}", k))
}

/// larger challenge lists: every coefficient of `compute_coeffs` against the defining product
/// h(X) = prod_i (1 + u_i X^(2^(k-i))) (coefficient of X^j = product of the u_i whose bit 2^(k-i) is set in j),
/// and `evaluate` against that product at a symbolic point; each comparison is a monomial identity, so the
/// bound on k is limited by the 2^k coefficients only
pub fn succinct_wide(k: usize) -> Verdict {
    let ch: Vec<SF> = (0..k).map(|i| sym(&format!("u{}", i))).collect();
    let z = sym("z");
    let sp = SuccinctCheckPolynomial(ch.clone());
    let co = sp.compute_coeffs();
    if co.len() != 1 << k {
        return Verdict::viol("succinct-len", format!("compute_coeffs returned {} coefficients for k={}", co.len(), k));
    }
    for (j, c) in co.iter().enumerate() {
        let mut want = SF::one();
        for i in 1..=k {
            if j & (1 << (k - i)) != 0 {
                want *= ch[i - 1];
            }
        }
        if *c != want {
            return Verdict::viol("succinct", format!("coefficient {} of compute_coeffs() is not the product of the challenges selected by its bits (k={})", j, k));
        }
    }
    // z^(2^e) by repeated squaring, independent of Field::pow
    let mut pw = vec![z];
    for e in 1..k {
        let last = pw[e - 1];
        pw.push(last * last);
    }
    let mut prod = SF::one();
    for i in 1..=k {
        prod *= SF::one() + ch[i - 1] * pw[k - i];
    }
    Verdict::check(sp.evaluate(z) == prod, "succinct", format!("evaluate(z) != prod (1 + u_i z^(2^(k-i))) for k={}", k))
}

/// the small conversions and predicates the combination code relies on (concrete; one path)
pub fn lc_term_helpers() -> Verdict {
    use core::convert::TryInto;
    let t: LCTerm = String::from("p").into();
    let t2: LCTerm = "p".into();
    if t != t2 || t.is_one() || !LCTerm::One.is_one() {
        return Verdict::viol("lc-term", "LCTerm conversions from a label disagree, or is_one is wrong");
    }
    if !(t == String::from("p")) || t == String::from("q") || LCTerm::One == String::from("p") || LCTerm::One == String::from("") {
        return Verdict::viol("lc-term", "LCTerm == label comparison is wrong");
    }
    let back: Result<String, ()> = t.clone().try_into();
    let back_ref: Result<&String, ()> = (&t).try_into();
    let one: Result<String, ()> = LCTerm::One.try_into();
    let one_ref: Result<&String, ()> = (&LCTerm::One).try_into();
    if back != Ok("p".to_string()) || back_ref != Ok(&"p".to_string()) || one.is_ok() || one_ref.is_ok() {
        return Verdict::viol("lc-term", "LCTerm -> label conversion is wrong");
    }
    let mut lc = LinearCombination::<SF>::empty("e");
    if !lc.is_empty() || lc.label() != "e" {
        return Verdict::viol("lc-empty", "an empty combination is not empty");
    }
    lc.push((SF::one(), LCTerm::One));
    if lc.is_empty() || lc.terms.len() != 1 {
        return Verdict::viol("lc-empty", "push did not add exactly one term");
    }
    let lc2 = LinearCombination::<SF>::new("n", vec![(SF::one(), "a"), (SF::one() + SF::one(), "b")]);
    if lc2.terms.len() != 2 || lc2.terms[1].1 != LCTerm::PolyLabel("b".into()) || lc2.terms[1].0 != SF::one() + SF::one() || lc2.label() != "n" {
        return Verdict::viol("lc-new", "LinearCombination::new does not keep its terms in order");
    }
    // labelled polynomial accessors
    use ark_poly::{univariate::DensePolynomial, DenseUVPolynomial};
    let p = DensePolynomial::<SF>::from_coefficients_vec(vec![SF::one(), SF::one()]);
    let mut lp = LabeledPolynomial::new("l".into(), p.clone(), Some(3), Some(2));
    if lp.label() != "l" || lp.degree_bound() != Some(3) || lp.hiding_bound() != Some(2) || !lp.is_hiding() || lp.polynomial() != &p || &*lp != &p {
        return Verdict::viol("labeled-polynomial", "LabeledPolynomial accessors do not return what it was built from");
    }
    *lp.polynomial_mut() = DensePolynomial::<SF>::from_coefficients_vec(vec![SF::one()]);
    if lp.polynomial().coeffs().len() != 1 || LabeledPolynomial::new("m".into(), p, None, None).is_hiding() {
        return Verdict::viol("labeled-polynomial", "polynomial_mut / is_hiding are wrong");
    }
    Verdict::Hold
}
