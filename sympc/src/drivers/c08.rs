//! C08: a non-hiding commitment is the key-defined linear map of the polynomial.
use super::common::*;
use crate::engine::explore::{sym, Verdict};
use crate::engine::ro::{RoColHash, RoLeafHash, RoTwoToOne, SymDigest};
use crate::engine::sf::SF;
use crate::schemes::*;
use ark_crypto_primitives::crh::{CRHScheme, TwoToOneCRHScheme};
use ark_ff::{FftField, Field, One, Zero};
use ark_poly::{multivariate::Term, Polynomial};
use ark_poly_commit::{LabeledPolynomial, PolynomialCommitment};

fn dot(c: &[SF], key: impl Fn(usize) -> SF) -> SF {
    let mut acc = SF::zero();
    for (i, x) in c.iter().enumerate() {
        acc += *x * key(i);
    }
    acc
}
fn cmp(got: &[SF], want: &[SF], what: &str) -> Verdict {
    if got.len() != want.len() {
        return Verdict::viol("shape", format!("{}: commitment has {} group elements, expected {}", what, got.len(), want.len()));
    }
    for (i, (a, b)) in got.iter().zip(want.iter()).enumerate() {
        if a != b {
            return Verdict::viol("msm", format!("{}: element {} of the commitment is not the key-weighted sum of the coefficients", what, i));
        }
    }
    Verdict::Hold
}

/// Marlin / Sonic / IPA: plain and shifted parts against the *universal parameters*
pub fn univariate_msm<S: Sch<P = UP>>(cfg: &Cfg) -> Verdict {
    let w = match build::<S>(cfg) {
        Ok(w) => w,
        Err(v) => return v,
    };
    for (i, c) in w.coeffs.iter().enumerate() {
        let got = terms_of(w.comms[i].commitment());
        let bound = cfg.polys[i].bound;
        let pp_terms = terms_of(&w.pp);
        // published G1 powers: kzg10 parameters serialize powers_of_g first (length-prefixed); ipa: comm_key first
        let npow = if S::NAME == "ipa" { (cfg.sz.max_degree + 1).next_power_of_two() } else { cfg.sz.max_degree + 1 };
        let pow = |j: usize| pp_terms[j];
        let maxd = npow - 1;
        let want: Vec<SF> = match (S::NAME, bound) {
            (_, None) => vec![dot(c, |j| pow(j))],
            ("marlin", Some(d)) => vec![dot(c, |j| pow(j)), dot(c, |j| pow(maxd - d + j))],
            ("sonic", Some(d)) => vec![dot(c, |j| pow(maxd - d + j))],
            ("ipa", Some(d)) => {
                let sup = (cfg.sz.supported + 1).next_power_of_two() - 1;
                vec![dot(c, |j| pow(j)), dot(c, |j| pow(sup - d + j))]
            }
            _ => return Verdict::viol("driver", "unknown scheme"),
        };
        let v = cmp(&got, &want, &format!("{} polynomial {} bound {:?}", S::NAME, i, bound));
        if !matches!(v, Verdict::Hold) {
            return v;
        }
    }
    Verdict::Hold
}

pub fn pst13_msm(cfg: &Cfg) -> Verdict {
    let w = match build::<Pst13>(cfg) {
        Ok(w) => w,
        Err(v) => return v,
    };
    for (i, c) in w.coeffs.iter().enumerate() {
        let got = terms_of(w.comms[i].commitment());
        let monos = monomials(cfg.sz.num_vars, cfg.polys[i].len - 1);
        let mut acc = SF::zero();
        for (cj, m) in c.iter().zip(monos.iter()) {
            let term = ark_poly::multivariate::SparseTerm::new(m.clone());
            match w.pp.powers_of_g.get(&term) {
                Some(g) => acc += *cj * g.0,
                None => return Verdict::viol("keyset", format!("no parameter element for monomial {:?}", m)),
            }
        }
        let v = cmp(&got, &[acc], &format!("pst13 polynomial {}", i));
        if !matches!(v, Verdict::Hold) {
            return v;
        }
    }
    Verdict::Hold
}

/// PST13 on polynomials built through the public fields of `SparsePolynomial` in a non-canonical form (terms in
/// descending order, one monomial split over two entries): the commitment must still be the key-weighted sum
pub fn pst13_noncanonical(cfg: &Cfg) -> Verdict {
    use ark_poly::multivariate::{SparsePolynomial, SparseTerm};
    let (ck, _vk, _rng, pp) = match keys::<Pst13>(cfg) {
        Ok(k) => k,
        Err(v) => return v,
    };
    let monos = monomials(cfg.sz.num_vars, 2);
    let coeffs: Vec<SF> = (0..monos.len()).map(|j| sym(&format!("c{}", j))).collect();
    let extra = sym("split");
    let mut want = SF::zero();
    for (cj, m) in coeffs.iter().zip(monos.iter()) {
        match pp.powers_of_g.get(&SparseTerm::new(m.clone())) {
            Some(g) => want += *cj * g.0,
            None => return Verdict::viol("keyset", format!("no parameter element for monomial {:?}", m)),
        }
    }
    let canonical: Vec<(SF, SparseTerm)> = coeffs.iter().zip(monos.iter()).map(|(c, m)| (*c, SparseTerm::new(m.clone()))).collect();
    let mut reversed = canonical.clone();
    reversed.reverse();
    // monomial 1 carries c1 - split and split in two separate entries
    let mut split = canonical.clone();
    split[1].0 -= extra;
    split.push((extra, canonical[1].1.clone()));
    let mut rotated = canonical.clone();
    rotated.rotate_left(2);
    for (what, terms) in [("descending term order", reversed), ("one monomial split over two entries", split), ("rotated term order", rotated)] {
        let p = SparsePolynomial { num_vars: cfg.sz.num_vars, terms };
        let lp = LabeledPolynomial::new("p".into(), p, None, None);
        let comms = match catch(|| Pst13PC::commit(&ck, [&lp], None)) {
            Ok(Ok((c, _))) => c,
            // refusing a non-canonical representation is not a wrong commitment
            _ => continue,
        };
        let got = terms_of(comms[0].commitment());
        if got.len() != 1 || got[0] != want {
            return Verdict::viol("msm-representation", format!("pst13 commitment of a polynomial given with {} is not the key-weighted sum of its coefficients", what));
        }
    }
    Verdict::Hold
}

/// Hyrax: row r of the commitment = sum_j M[r][j] * com_key[j] + rand_r * h, with M[r][j] = evals[j*dim + r]
pub fn hyrax_rows(cfg: &Cfg) -> Verdict {
    let w = match build::<Hyrax>(cfg) {
        Ok(w) => w,
        Err(v) => return v,
    };
    let dim = 1usize << (cfg.sz.num_vars / 2);
    for (i, c) in w.coeffs.iter().enumerate() {
        let (rands, _) = w.states[i].verif_parts();
        let rows = &w.comms[i].commitment().row_coms;
        if rows.len() != dim || rands.len() != dim {
            return Verdict::viol("shape", format!("{} row commitments / {} blinding scalars for a {}x{} matrix", rows.len(), rands.len(), dim, dim));
        }
        for r in 0..dim {
            let mut acc = rands[r] * w.pp.h.0;
            for j in 0..dim {
                acc += c[j * dim + r] * w.pp.com_key[j].0;
            }
            if rows[r].0 != acc {
                return Verdict::viol("msm", format!("hyrax row commitment {} is not <row, com_key> + rand*h", r));
            }
        }
    }
    Verdict::Hold
}

/// commit(a*p + b*q) == a*commit(p) + b*commit(q), element-wise, for every group-based scheme
pub fn additive<S: Sch>(cfg: &Cfg) -> Verdict {
    let (a, b) = (sym("a"), sym("b"));
    let (ck, _vk, mut rng, _pp) = match keys::<S>(cfg) {
        Ok(k) => k,
        Err(v) => return v,
    };
    let (lps, coeffs) = polys::<S>(cfg, &mut rng);
    let comb: Vec<SF> = coeffs[0].iter().zip(coeffs[1].iter()).map(|(x, y)| a * *x + b * *y).collect();
    let lc = LabeledPolynomial::new("lc".into(), S::poly(&cfg.sz, comb), cfg.polys[0].bound, None);
    let all = vec![lps[0].clone(), lps[1].clone(), lc];
    let (comms, _) = match PCOf::<S>::commit(&ck, &all, None) {
        Ok(x) => x,
        Err(e) => return Verdict::viol(&format!("commit-err:{}", errname(&e)), format!("{:?}", e)),
    };
    let (tp, tq, tl) = (terms_of(comms[0].commitment()), terms_of(comms[1].commitment()), terms_of(comms[2].commitment()));
    if tp.len() != tl.len() || tq.len() != tl.len() {
        return Verdict::viol("shape", "commitments of p, q and a*p+b*q have different shapes");
    }
    for k in 0..tl.len() {
        if tl[k] != a * tp[k] + b * tq[k] {
            return Verdict::viol("not-additive", format!("element {}: commit(a*p+b*q) != a*commit(p)+b*commit(q)", k));
        }
    }
    Verdict::Hold
}

fn merkle_root(leaves: &[SymDigest]) -> SymDigest {
    let n = leaves.len().next_power_of_two();
    let mut padded = leaves.to_vec();
    padded.resize(n, SymDigest::default());
    let mut level: Vec<SymDigest> = padded.iter().map(|l| RoLeafHash::evaluate(&(), *l).unwrap()).collect();
    while level.len() > 1 {
        level = level.chunks(2).map(|p| RoTwoToOne::evaluate(&(), p[0], p[1]).unwrap()).collect();
    }
    level[0]
}

/// Ligero: root == Merkle root over the column hashes of the independently Reed-Solomon-encoded
/// row-major coefficient matrix; equal polynomials give equal roots.
pub fn lincode_root<S: Sch>(cfg: &Cfg, ligero: bool) -> Verdict
where
    CommOf<S>: LinCommParts,
    CkOf<S>: ark_serialize::CanonicalSerialize,
{
    lincode_root_code::<S>(cfg, if ligero { 1 } else { 0 })
}

/// code: 0 = shape and determinism only, 1 = Reed-Solomon on a 2-adic domain (Ligero), 2 = Brakedown's
/// recursive code over the matrices in the committer key (`bdref`)
pub fn lincode_root_code<S: Sch>(cfg: &Cfg, code: u8) -> Verdict
where
    CommOf<S>: LinCommParts,
    CkOf<S>: ark_serialize::CanonicalSerialize,
{
    let ligero = code == 1;
    let w = match build::<S>(cfg) {
        Ok(w) => w,
        Err(v) => return v,
    };
    for (i, c) in w.coeffs.iter().enumerate() {
        let (n_rows, n_cols, n_ext, root) = w.comms[i].commitment().parts();
        // the polynomial type drops trailing zero coefficients
        let mut eff = c.len();
        while S::UNIVARIATE && eff > 0 && c[eff - 1].is_zero() {
            eff -= 1;
        }
        let c = &c[..eff].to_vec();
        if n_rows * n_cols < c.len() {
            return Verdict::viol("shape", format!("matrix {}x{} cannot hold {} coefficients", n_rows, n_cols, c.len()));
        }
        if ligero {
            let rho_inv = cfg.sz.ligero.1;
            let mut flat = c.to_vec();
            flat.resize(n_rows * n_cols, SF::zero());
            // Reed-Solomon: evaluate the row polynomial on the smallest 2-adic domain of size >= n_cols * rho_inv
            let dom = (n_cols * rho_inv).next_power_of_two();
            if dom != n_ext {
                return Verdict::viol("shape", format!("n_ext_cols = {} but the code length is {}", n_ext, dom));
            }
            let omega = SF::get_root_of_unity(dom as u64).unwrap();
            let mut cols: Vec<Vec<SF>> = vec![vec![]; dom];
            for r in 0..n_rows {
                let row = &flat[r * n_cols..(r + 1) * n_cols];
                let mut x = SF::one();
                for k in 0..dom {
                    let mut acc = SF::zero();
                    for cj in row.iter().rev() {
                        acc = acc * x + *cj;
                    }
                    cols[k].push(acc);
                    x *= omega;
                }
            }
            let leaves: Vec<SymDigest> = cols.iter().map(|col| RoColHash::evaluate(&(), col.clone()).unwrap()).collect();
            if root != merkle_root(&leaves) {
                return Verdict::viol("root", format!("polynomial {}: root differs from the reference Merkle root of the encoded matrix", i));
            }
        }
        if code == 2 {
            let p = match super::bdref::mirror(&w.ck) {
                Ok(p) => p,
                Err(e) => return Verdict::Discard(format!("driver: {}", e)),
            };
            if (n_rows, n_cols, n_ext) != (p.n, p.m, p.m_ext) {
                return Verdict::viol("shape", format!("commitment metadata ({}, {}, {}) differs from the key's (n, m, m_ext) = ({}, {}, {})", n_rows, n_cols, n_ext, p.n, p.m, p.m_ext));
            }
            let mut flat = c.to_vec();
            flat.resize(n_rows * n_cols, SF::zero());
            let mut cols: Vec<Vec<SF>> = vec![vec![]; n_ext];
            for r in 0..n_rows {
                let cw = match super::bdref::encode_ref(&p, &flat[r * n_cols..(r + 1) * n_cols], 0) {
                    Ok(cw) => cw,
                    Err(e) => return Verdict::viol("code-structure", e),
                };
                if cw.len() != n_ext {
                    return Verdict::viol("shape", format!("n_ext_cols = {} but the code length is {}", n_ext, cw.len()));
                }
                for (k, x) in cw.into_iter().enumerate() {
                    cols[k].push(x);
                }
            }
            let leaves: Vec<SymDigest> = cols.iter().map(|col| RoColHash::evaluate(&(), col.clone()).unwrap()).collect();
            if root != merkle_root(&leaves) {
                return Verdict::viol("root", format!("polynomial {}: root differs from the reference Merkle root of the Brakedown-encoded matrix", i));
            }
        }
    }
    // determinism: committing again gives the same root
    let (comms2, _) = match PCOf::<S>::commit(&w.ck, &w.lps, None) {
        Ok(x) => x,
        Err(e) => return Verdict::viol(&format!("commit-err:{}", errname(&e)), format!("{:?}", e)),
    };
    for i in 0..w.comms.len() {
        if comms2[i].commitment().parts().3 != w.comms[i].commitment().parts().3 {
            return Verdict::viol("nondeterministic", "committing twice to the same polynomial gives different roots");
        }
    }
    let _ = <SF as Field>::ONE;
    let _ = |p: &POf<S>, z: &PointOf<S>| p.evaluate(z);
    Verdict::Hold
}

pub trait LinCommParts {
    fn parts(&self) -> (usize, usize, usize, SymDigest);
}
impl LinCommParts for <LigeroUniPC as PolynomialCommitment<SF, UP>>::Commitment {
    fn parts(&self) -> (usize, usize, usize, SymDigest) {
        let (a, b, c, r) = self.verif_parts();
        (a, b, c, *r)
    }
}

/// homomorphic-add operators used by the linear-combination code:
/// kzg10::Commitment += (f, &D) onto a non-identity accumulator, kzg10 / marlin Randomness += (f, &R)
pub fn add_operators(seed: u64) -> Verdict {
    fn co(p: &UP, i: usize) -> SF {
        use ark_poly::DenseUVPolynomial;
        p.coeffs().get(i).copied().unwrap_or(SF::zero())
    }
    use crate::engine::grp::{ToyPairing, TA};
    use ark_poly::DenseUVPolynomial;
    use ark_poly_commit::kzg10;
    use ark_poly_commit::marlin_pc;
    use ark_poly_commit::PCCommitmentState;
    let _ = seed;
    let (c, d, f, g) = (sym("c"), sym("d"), sym("f"), sym("g"));
    let mut acc = kzg10::Commitment::<ToyPairing>(TA(c));
    acc += (f, &kzg10::Commitment::<ToyPairing>(TA(d)));
    if acc.0 .0 != c + f * d {
        return Verdict::viol("commitment-add-assign", "Commitment += (f, &D) is not C + f*D");
    }
    acc += (g, &kzg10::Commitment::<ToyPairing>(TA(d)));
    if acc.0 .0 != c + f * d + g * d {
        return Verdict::viol("commitment-add-assign", "a second Commitment += (g, &D) is not C + f*D + g*D");
    }
    // randomness: blinding polynomials scale and add coefficient-wise, plain and shifted parts
    let mk = |tag: &str, n: usize| -> kzg10::Randomness<SF, UP> {
        let mut r = kzg10::Randomness::<SF, UP>::empty();
        r.blinding_polynomial = UP::from_coefficients_vec((0..n).map(|i| sym(&format!("{}{}", tag, i))).collect());
        r
    };
    let (r1, r2, s1, s2) = (mk("r", 3), mk("q", 3), mk("s", 3), mk("t", 3));
    let mut k = kzg10::Randomness::<SF, UP>::empty();
    k += (f, &r1);
    k += (g, &r2);
    for i in 0..3 {
        if co(&k.blinding_polynomial, i) != f * co(&r1.blinding_polynomial, i) + g * co(&r2.blinding_polynomial, i) {
            return Verdict::viol("randomness-add-assign", "kzg10 Randomness += (f, &R) is not coefficient-wise f*R");
        }
    }
    let a = marlin_pc::Randomness { rand: r1.clone(), shifted_rand: Some(s1.clone()) };
    let b = marlin_pc::Randomness { rand: r2.clone(), shifted_rand: Some(s2.clone()) };
    let mut m = marlin_pc::Randomness::<SF, UP>::empty();
    m += (f, &a);
    m += (g, &b);
    let sh = match &m.shifted_rand {
        Some(x) => x.clone(),
        None => return Verdict::viol("randomness-add-assign", "marlin Randomness += (f, &R) lost the shifted part"),
    };
    for i in 0..3 {
        if co(&m.rand.blinding_polynomial, i) != f * co(&r1.blinding_polynomial, i) + g * co(&r2.blinding_polynomial, i) {
            return Verdict::viol("randomness-add-assign", "marlin Randomness += (f, &R): plain part is not f*R + g*R'");
        }
        if co(&sh.blinding_polynomial, i) != f * co(&s1.blinding_polynomial, i) + g * co(&s2.blinding_polynomial, i) {
            return Verdict::viol("randomness-add-assign-shifted", "marlin Randomness += (f, &R): shifted part is not f*S + g*S'");
        }
    }
    // unscaled add
    let mut u = marlin_pc::Randomness::<SF, UP>::empty();
    u += &a;
    u += &b;
    for i in 0..3 {
        let shu = u.shifted_rand.as_ref().map(|x| co(&x.blinding_polynomial, i));
        if co(&u.rand.blinding_polynomial, i) != co(&r1.blinding_polynomial, i) + co(&r2.blinding_polynomial, i) || shu != Some(co(&s1.blinding_polynomial, i) + co(&s2.blinding_polynomial, i)) {
            return Verdict::viol("randomness-add-assign", "marlin Randomness += &R is not coefficient-wise addition");
        }
    }
    Verdict::Hold
}

/// the by-value forms R + &S, R + (f, &S) (kzg10, marlin and PST13 randomness), `+=` with a missing shifted part
pub fn add_operators_by_value(seed: u64) -> Verdict {
    fn co(p: &UP, i: usize) -> SF {
        use ark_poly::DenseUVPolynomial;
        p.coeffs().get(i).copied().unwrap_or(SF::zero())
    }
    use crate::engine::grp::ToyPairing;
    use ark_poly::DenseUVPolynomial;
    use ark_poly_commit::kzg10;
    use ark_poly_commit::marlin_pc;
    use ark_poly_commit::PCCommitmentState;
    let _ = seed;
    let f = sym("f");
    let mk = |tag: &str, n: usize| -> kzg10::Randomness<SF, UP> {
        let mut r = kzg10::Randomness::<SF, UP>::empty();
        r.blinding_polynomial = UP::from_coefficients_vec((0..n).map(|i| sym(&format!("{}{}", tag, i))).collect());
        r
    };
    let (r1, r2, s1, s2) = (mk("r", 2), mk("q", 2), mk("s", 2), mk("t", 2));
    let a = marlin_pc::Randomness { rand: r1.clone(), shifted_rand: Some(s1.clone()) };
    let b = marlin_pc::Randomness { rand: r2.clone(), shifted_rand: Some(s2.clone()) };
    // the by-value operators: R + &S, R + (f, &S) for kzg10 and marlin randomness
    let k2 = r1.clone() + &r2;
    let k3 = r1.clone() + (f, &r2);
    let k4 = {
        let mut x = r1.clone();
        x += &r2;
        x
    };
    for i in 0..2 {
        let (x, y) = (co(&r1.blinding_polynomial, i), co(&r2.blinding_polynomial, i));
        if co(&k2.blinding_polynomial, i) != x + y || co(&k4.blinding_polynomial, i) != x + y {
            return Verdict::viol("randomness-add", "kzg10 Randomness + &S (or += &S) is not coefficient-wise addition");
        }
        if co(&k3.blinding_polynomial, i) != x + f * y {
            return Verdict::viol("randomness-add", "kzg10 Randomness + (f, &S) is not R + f*S");
        }
    }
    let m2 = a.clone() + &b;
    let m3 = a.clone() + (f, &b);
    for i in 0..2 {
        let (x, y, xs, ys) = (co(&r1.blinding_polynomial, i), co(&r2.blinding_polynomial, i), co(&s1.blinding_polynomial, i), co(&s2.blinding_polynomial, i));
        let sh2 = m2.shifted_rand.as_ref().map(|z| co(&z.blinding_polynomial, i));
        let sh3 = m3.shifted_rand.as_ref().map(|z| co(&z.blinding_polynomial, i));
        if co(&m2.rand.blinding_polynomial, i) != x + y || sh2 != Some(xs + ys) {
            return Verdict::viol("randomness-add", "marlin Randomness + &S is not coefficient-wise addition of both parts");
        }
        if co(&m3.rand.blinding_polynomial, i) != x + f * y || sh3 != Some(xs + f * ys) {
            return Verdict::viol("randomness-add", "marlin Randomness + (f, &S) is not R + f*S on both parts");
        }
    }
    // a summand without a shifted part leaves the accumulator's shifted part alone; an accumulator without one adopts f*S
    let plain = marlin_pc::Randomness { rand: r2.clone(), shifted_rand: None };
    let m4 = a.clone() + (f, &plain);
    let mut m5 = marlin_pc::Randomness::<SF, UP> { rand: r1.clone(), shifted_rand: None };
    m5 += (f, &b);
    for i in 0..2 {
        if m4.shifted_rand.as_ref().map(|z| co(&z.blinding_polynomial, i)) != Some(co(&s1.blinding_polynomial, i)) {
            return Verdict::viol("randomness-add-shifted", "adding a summand without shifted part changed the shifted part");
        }
        if m5.shifted_rand.as_ref().map(|z| co(&z.blinding_polynomial, i)) != Some(f * co(&s2.blinding_polynomial, i)) {
            return Verdict::viol("randomness-add-shifted", "an accumulator without shifted part += (f, &R): shifted part is not f*S");
        }
    }
    // PST13 randomness (sparse multivariate blinding polynomials), all four operators, at a symbolic point
    {
        use ark_poly::multivariate::{SparsePolynomial, SparseTerm, Term};
        use ark_poly::{DenseMVPolynomial, Polynomial};
        use ark_poly_commit::marlin::marlin_pst13_pc;
        type MP = SparsePolynomial<SF, SparseTerm>;
        let mkp = |tag: &str| -> marlin_pst13_pc::Randomness<ToyPairing, MP> {
            let mut r = marlin_pst13_pc::Randomness::<ToyPairing, MP>::empty();
            r.blinding_polynomial = MP::from_coefficients_vec(2, vec![(sym(&format!("{}0", tag)), SparseTerm::new(vec![])), (sym(&format!("{}1", tag)), SparseTerm::new(vec![(0, 1)])), (sym(&format!("{}2", tag)), SparseTerm::new(vec![(1, 2)]))]);
            r
        };
        let (p1, p2) = (mkp("u"), mkp("w"));
        let z = vec![sym("zx"), sym("zy")];
        let (e1, e2) = (p1.blinding_polynomial.evaluate(&z), p2.blinding_polynomial.evaluate(&z));
        let q1 = p1.clone() + &p2;
        let q2 = p1.clone() + (f, &p2);
        let mut q3 = p1.clone();
        q3 += &p2;
        let mut q4 = p1.clone();
        q4 += (f, &p2);
        if q1.blinding_polynomial.evaluate(&z) != e1 + e2 || q3.blinding_polynomial.evaluate(&z) != e1 + e2 {
            return Verdict::viol("randomness-add-pst13", "pst13 Randomness + &S / += &S is not the sum of the blinding polynomials");
        }
        if q2.blinding_polynomial.evaluate(&z) != e1 + f * e2 || q4.blinding_polynomial.evaluate(&z) != e1 + f * e2 {
            return Verdict::viol("randomness-add-pst13", "pst13 Randomness + (f, &S) / += (f, &S) is not R + f*S");
        }
    }
    Verdict::Hold
}
