//! C03: no crafted or malformed proof proves a false claim (for an honestly committed polynomial).
use super::common::*;
use crate::engine::explore::{assume_ne, sym, sym_nonzero, Verdict};
use crate::engine::ro::RoMT;
use crate::engine::sf::SF;
use crate::schemes::*;
use ark_ff::Zero;
use ark_poly_commit::linear_codes::LinCodePCProof;
use ark_poly_commit::{LabeledCommitment, PolynomialCommitment};

fn verdict(r: Result<Result<bool, String>, String>, what: &str, negate: bool) -> Verdict {
    match (r, negate) {
        (Ok(Ok(true)), false) => Verdict::viol("accepted-false-claim", format!("{}: verifier accepted a false evaluation claim", what)),
        (Ok(Ok(true)), true) => Verdict::Hold,
        (_, false) => Verdict::Hold,
        (_, true) => Verdict::viol("twin", "twin"),
    }
}

/// The library's prover is run on another polynomial q (and q's commitment state); the proof is
/// checked against the honest commitment to p for the claimed value q(z) (assumed != p(z)).
pub fn foreign_q<S: Sch>(cfg: &Cfg) -> Verdict {
    let mut cfg = cfg.clone();
    let mut q = cfg.polys[0].clone();
    q.sym = true;
    cfg.polys.push(q);
    cfg.queries = vec![(0, 0), (1, 0)];
    let mut w = match catch(|| build::<S>(&cfg)) {
        Ok(Ok(w)) => w,
        _ => return Verdict::Discard("honest phase failed".into()),
    };
    let sp0 = sponge(&cfg, 1);
    let (mut sp_p, mut sp_v) = (sp0.clone(), sp0.clone());
    // prover: opens q (index 1)
    let proof = match catch(|| w.open(&[1], 0, &mut sp_p)) {
        Ok(Ok(p)) => p,
        _ => return Verdict::Discard("honest phase failed".into()),
    };
    let pt = w.points[0].1.clone();
    let (vp, vq) = (w.lps[0].evaluate(&pt), w.lps[1].evaluate(&pt));
    if !assume_ne(vp, vq, "q(z) == p(z): the claim is true") {
        return Verdict::Hold;
    }
    let (tp, tq) = (terms_of(w.comms[0].commitment()), terms_of(w.comms[1].commitment()));
    if tp.is_empty() || !assume_ne(tp[0], tq[0], "commitments of p and q coincide") {
        return Verdict::Hold;
    }
    // verifier: commitment of p (relabelled as the opened one is irrelevant for single check), value q(z)
    let r = catch(|| w.check(&[0], &pt, vec![vq], &proof, &mut sp_v));
    verdict(r, "prover run on (q, state_q) against commitment(p)", false)
}

/// A proof made for the point z' is presented for the point z with the value p(z') (assumed != p(z)).
pub fn foreign_z<S: Sch>(cfg: &Cfg) -> Verdict {
    let mut cfg = cfg.clone();
    cfg.npoints = 2;
    cfg.queries = vec![(0, 0), (0, 1)];
    let mut w = match catch(|| build::<S>(&cfg)) {
        Ok(Ok(w)) => w,
        _ => return Verdict::Discard("honest phase failed".into()),
    };
    let sp0 = sponge(&cfg, 1);
    let (mut sp_p, mut sp_v) = (sp0.clone(), sp0.clone());
    let proof = match catch(|| w.open(&[0], 1, &mut sp_p)) {
        Ok(Ok(p)) => p,
        _ => return Verdict::Discard("honest phase failed".into()),
    };
    let (z, z1) = (w.points[0].1.clone(), w.points[1].1.clone());
    let (v, v1) = (w.lps[0].evaluate(&z), w.lps[0].evaluate(&z1));
    if !assume_ne(v, v1, "p(z') == p(z): the claim is true") {
        return Verdict::Hold;
    }
    for k in 0..S::point_dim(&cfg.sz) {
        if let Some(w0) = S::proof_elem(&proof, k) {
            if !assume_ne(w0, SF::zero(), "witness commitment is the identity") {
                return Verdict::Hold;
            }
        }
    }
    let r = catch(|| w.check(&[0], &z, vec![v1], &proof, &mut sp_v));
    verdict(r, "proof for (p, z') replayed at z", false)
}

#[derive(Clone, Copy, Debug, PartialEq)]
pub enum LcMut {
    /// every opened column and the opened combination v replaced by fresh symbolic values
    ColsSymbolic,
    /// v stretched to twice its length with symbolic values (encoding of another length)
    VStretch,
    /// well-formedness vector removed
    WfAbsent,
    /// well-formedness vector replaced by symbolic values
    WfSymbolic,
    /// all columns replaced by copies of the first one
    ColsDup,
    /// the authentication path of column 0 replaced by the path of column 1
    PathOtherLeaf,
    /// columns replaced by symbolic ones and v kept (forge only the columns)
    ColsOnlySymbolic,
    /// position j shows a consistent opening (committed column + its authentication path) of leaf q_j + 1
    /// instead of leaf q_j; v and the well-formedness vector symbolic
    LeafRotate,
    /// the last opened column and its path removed, v symbolic (fewer than t columns)
    ColsDropLast,
    /// no columns and no paths at all, v symbolic
    ColsNone,
}

pub trait LinStateParts {
    /// (rows of the encoded matrix, column hashes)
    fn parts(&self) -> (Vec<Vec<SF>>, Vec<crate::engine::ro::SymDigest>);
}
impl LinStateParts for <LigeroUniPC as PolynomialCommitment<SF, UP>>::CommitmentState {
    fn parts(&self) -> (Vec<Vec<SF>>, Vec<crate::engine::ro::SymDigest>) {
        let (_, ext, leaves) = self.verif_parts();
        (ext, leaves.clone())
    }
}

/// Ligero / Brakedown proofs built from an honest one through the accessor hook; claimed value p(z)+delta.
pub fn lincode<S: Sch>(cfg: &Cfg, m: LcMut, negate: bool) -> Verdict
where
    S::PC: PolynomialCommitment<SF, S::P, Proof = Vec<LinCodePCProof<SF, RoMT>>>,
    <S::PC as PolynomialCommitment<SF, S::P>>::CommitmentState: LinStateParts,
{
    let delta = sym_nonzero("delta");
    let mut w = match catch(|| build::<S>(cfg)) {
        Ok(Ok(w)) => w,
        _ => return Verdict::Discard("honest phase failed".into()),
    };
    let sp0 = sponge(cfg, 1);
    let (mut sp_p, mut sp_v) = (sp0.clone(), sp0.clone());
    let mut proof: Vec<LinCodePCProof<SF, RoMT>> = match catch(|| w.open(&[0], 0, &mut sp_p)) {
        Ok(Ok(p)) => p,
        _ => return Verdict::Discard("honest phase failed".into()),
    };
    let pt = w.points[0].1.clone();
    let v = w.lps[0].evaluate(&pt);
    let (ext_rows, leaves) = w.states[0].parts();
    {
        let (paths, pv, cols, wf) = proof[0].verif_parts_mut();
        match m {
            LcMut::ColsSymbolic | LcMut::ColsOnlySymbolic => {
                for c in cols.iter_mut() {
                    for x in c.iter_mut() {
                        *x = sym("fc");
                    }
                }
                if m == LcMut::ColsSymbolic {
                    for x in pv.iter_mut() {
                        *x = sym("fv");
                    }
                }
            }
            LcMut::VStretch => {
                let n = pv.len();
                for x in pv.iter_mut() {
                    *x = sym("fv");
                }
                for _ in 0..n {
                    pv.push(sym("fv"));
                }
            }
            LcMut::WfAbsent => *wf = None,
            LcMut::WfSymbolic => {
                if let Some(x) = wf.as_mut() {
                    for y in x.iter_mut() {
                        *y = sym("fw");
                    }
                }
                for x in pv.iter_mut() {
                    *x = sym("fv");
                }
            }
            LcMut::ColsDup => {
                let c0 = cols[0].clone();
                for c in cols.iter_mut() {
                    *c = c0.clone();
                }
                for x in pv.iter_mut() {
                    *x = sym("fv");
                }
            }
            LcMut::LeafRotate => {
                // the harness's own Merkle tree over the committed column hashes (padded like the library's)
                let n_ext = leaves.len();
                let mut padded = leaves.clone();
                padded.resize(n_ext.next_power_of_two(), Default::default());
                let tree = match ark_crypto_primitives::merkle_tree::MerkleTree::<RoMT>::new(&(), &(), &padded) {
                    Ok(t) => t,
                    Err(_) => return Verdict::Discard("harness Merkle tree failed".into()),
                };
                for j in 0..paths.len() {
                    let k = (paths[j].leaf_index + 1) % n_ext;
                    paths[j] = match tree.generate_proof(k) {
                        Ok(p) => p,
                        Err(_) => return Verdict::Discard("harness Merkle path failed".into()),
                    };
                    cols[j] = ext_rows.iter().map(|row| row[k]).collect();
                }
                for x in pv.iter_mut() {
                    *x = sym("fv");
                }
                if let Some(x) = wf.as_mut() {
                    for y in x.iter_mut() {
                        *y = sym("fw");
                    }
                }
            }
            LcMut::ColsDropLast | LcMut::ColsNone => {
                if m == LcMut::ColsNone {
                    cols.clear();
                    paths.clear();
                } else {
                    cols.pop();
                    paths.pop();
                }
                for x in pv.iter_mut() {
                    *x = sym("fv");
                }
                if let Some(x) = wf.as_mut() {
                    for y in x.iter_mut() {
                        *y = sym("fw");
                    }
                }
            }
            LcMut::PathOtherLeaf => {
                if paths.len() >= 2 {
                    paths[0] = paths[1].clone();
                }
                for x in pv.iter_mut() {
                    *x = sym("fv");
                }
            }
        }
    }
    let r = catch(|| w.check(&[0], &pt, vec![v + delta], &proof, &mut sp_v));
    verdict(r, &format!("linear-code proof mutation {:?}", m), negate)
}

/// PST13: witness list shortened / extended (honest elements), claimed value p(z)+delta
pub fn pst13_wlist(cfg: &Cfg, drop: bool) -> Verdict {
    let delta = sym_nonzero("delta");
    let mut w = match catch(|| build::<Pst13>(cfg)) {
        Ok(Ok(w)) => w,
        _ => return Verdict::Discard("honest phase failed".into()),
    };
    let sp0 = sponge(cfg, 1);
    let (mut sp_p, mut sp_v) = (sp0.clone(), sp0.clone());
    let mut proof = match catch(|| w.open(&[0], 0, &mut sp_p)) {
        Ok(Ok(p)) => p,
        _ => return Verdict::Discard("honest phase failed".into()),
    };
    if drop {
        proof.w.pop();
    } else {
        let x = proof.w[0];
        proof.w.push(x);
    }
    let pt = w.points[0].1.clone();
    let v = w.lps[0].evaluate(&pt);
    let r = catch(|| w.check(&[0], &pt, vec![v + delta], &proof, &mut sp_v));
    verdict(r, if drop { "PST13 witness list shortened" } else { "PST13 witness list extended" }, false)
}

/// Hyrax: per-polynomial proof list shorter than the commitment list (second claim false)
pub fn hyrax_plist_short(cfg: &Cfg) -> Verdict {
    let delta = sym_nonzero("delta");
    let mut w = match catch(|| build::<Hyrax>(cfg)) {
        Ok(Ok(w)) => w,
        _ => return Verdict::Discard("honest phase failed".into()),
    };
    let sp0 = sponge(cfg, 1);
    let (mut sp_p, mut sp_v) = (sp0.clone(), sp0.clone());
    let mut proof = match catch(|| w.open(&[0, 1], 0, &mut sp_p)) {
        Ok(Ok(p)) => p,
        _ => return Verdict::Discard("honest phase failed".into()),
    };
    proof.pop();
    let pt = w.points[0].1.clone();
    let vals = vec![w.lps[0].evaluate(&pt), w.lps[1].evaluate(&pt) + delta];
    let r = catch(|| w.check(&[0, 1], &pt, vals, &proof, &mut sp_v));
    let _ = LabeledCommitment::<CommOf<Hyrax>>::label;
    verdict(r, "Hyrax proof list shorter than the commitment list", false)
}

/// Any scheme whose single-point proof is a list with one entry per polynomial (Hyrax, Ligero, Brakedown):
/// the list is shorter than the commitment list (last entry dropped, or empty) and the claim without a proof
/// entry is false.
pub fn plist_short<S: Sch, T: Clone>(cfg: &Cfg, empty: bool) -> Verdict
where
    S::PC: PolynomialCommitment<SF, S::P, Proof = Vec<T>>,
{
    let delta = sym_nonzero("delta");
    let mut w = match catch(|| build::<S>(cfg)) {
        Ok(Ok(w)) => w,
        _ => return Verdict::Discard("honest phase failed".into()),
    };
    let sp0 = sponge(cfg, 1);
    let (mut sp_p, mut sp_v) = (sp0.clone(), sp0.clone());
    let mut proof: Vec<T> = match catch(|| w.open(&[0, 1], 0, &mut sp_p)) {
        Ok(Ok(p)) => p,
        _ => return Verdict::Discard("honest phase failed".into()),
    };
    if empty {
        proof.clear();
    } else {
        proof.pop();
    }
    let pt = w.points[0].1.clone();
    let vals = vec![w.lps[0].evaluate(&pt), w.lps[1].evaluate(&pt) + delta];
    let r = catch(|| w.check(&[0, 1], &pt, vals, &proof, &mut sp_v));
    verdict(r, if empty { "empty per-polynomial proof list" } else { "per-polynomial proof list shorter than the commitment list" }, false)
}

/// Batched form: one polynomial opened at several points; every claimed value carries a free error term and
/// the witness of every proof but the first is shifted by a free multiple of the public generator. The same
/// attack parameters are applied in two worlds that differ only in the SRS trapdoor, and each world's
/// `batch_check` is run under several verifier tapes: an attack that works in both worlds cannot depend on the
/// trapdoor. If both accept under every tape while some claimed value is false, a false claim has been proven.
pub fn batch_forged<S: Sch>(cfg: &Cfg, ntapes: usize) -> Verdict {
    use ark_poly_commit::Evaluations;
    let n = cfg.queries.len();
    let shifts: Vec<SF> = (1..n).map(|i| sym(&format!("a{}", i))).collect();
    let errs: Vec<SF> = (0..n).map(|i| sym(&format!("err{}", i))).collect();
    for salt in [0u64, 0x5eed_0002] {
        let mut c = cfg.clone();
        c.srs_salt = salt;
        let mut w = match catch(|| build::<S>(&c)) {
            Ok(Ok(w)) => w,
            _ => return Verdict::Discard("honest phase failed".into()),
        };
        let g = match S::generator(&w.vk) {
            Some(g) => g,
            None => return Verdict::viol("driver", "scheme publishes no G1 generator"),
        };
        let qs = w.query_set();
        let mut ev: Evaluations<PointOf<S>, SF> = w.evaluations();
        let sp0 = sponge(&c, 1);
        let mut sp_p = sp0.clone();
        let proof = match catch(|| w.batch_open(&qs, &mut sp_p)) {
            Ok(Ok(p)) => p,
            _ => return Verdict::Discard("honest phase failed".into()),
        };
        let mut proofs: Vec<ProofOf<S>> = proof.into();
        if proofs.len() != n {
            return Verdict::viol("driver", "one proof per query point expected");
        }
        for (i, p) in proofs.iter_mut().enumerate().skip(1) {
            let w0 = match S::proof_elem(p, 0) {
                Some(x) => x,
                None => return Verdict::viol("driver", "scheme has no witness element to shift"),
            };
            S::set_proof_elem(p, 0, w0 + shifts[i - 1] * g);
        }
        let bp: BatchProofOf<S> = proofs.into();
        let keys: Vec<_> = ev.keys().cloned().collect();
        for (i, k) in keys.iter().enumerate() {
            *ev.get_mut(k).unwrap() += errs[i];
        }
        for tpe in 0..ntapes {
            let mut sp_v = sp0.clone();
            let r = catch(|| w.batch_check(&qs, &ev, &bp, &mut sp_v, c.seed * 1000 + 17 * tpe as u64 + 1));
            if !matches!(r, Ok(Ok(true))) {
                return Verdict::Hold;
            }
        }
    }
    if errs.iter().any(|e| !e.is_zero()) {
        return Verdict::viol("accepted-false-claim", format!("batch_check accepted under {} verifier tapes and two independent trapdoors although a claimed value is false", ntapes));
    }
    Verdict::Hold
}

/// IPA, "extra rounds with identity-padded generators": the committer key is extended with identity elements to
/// twice its length (public fields), the library's own prover is run with it on p' = p + X^(d+1) * q against the
/// honest commitment and state of p, and the proof (one more folding round than the verifier's key dictates) is
/// presented for the value p'(z), assumed different from p(z).
pub fn ipa_extra_rounds(cfg: &Cfg) -> Verdict {
    use ark_poly::DenseUVPolynomial;
    use ark_poly_commit::LabeledPolynomial;
    let mut w = match catch(|| build::<Ipa>(cfg)) {
        Ok(Ok(w)) => w,
        _ => return Verdict::Discard("honest phase failed".into()),
    };
    let n = w.ck.comm_key.len();
    let mut ck2 = w.ck.clone();
    for _ in 0..n {
        ck2.comm_key.push(crate::engine::grp::TA(SF::zero()));
    }
    let mut c = w.coeffs[0].clone();
    c.resize(n, SF::zero());
    c.push(sym("q0"));
    c.push(sym("q1"));
    let p2 = UP::from_coefficients_vec(c);
    let lp = w.lps[0].clone();
    let lp2 = LabeledPolynomial::new(lp.label().clone(), p2, lp.degree_bound(), lp.hiding_bound());
    let pt = w.points[0].1;
    let v_true = lp.evaluate(&pt);
    let v_claim = lp2.evaluate(&pt);
    if !assume_ne(v_true, v_claim, "p'(z) == p(z)") {
        return Verdict::Hold;
    }
    let sp0 = sponge(cfg, 1);
    let (mut sp_p, mut sp_v) = (sp0.clone(), sp0.clone());
    let comms = vec![w.comms[0].clone()];
    let states = vec![w.states[0].clone()];
    let proof = match catch(|| IpaPC::open(&ck2, [&lp2], &comms, &pt, &mut sp_p, &states, Some(&mut w.rng)).map_err(|e| errname(&e))) {
        Ok(Ok(p)) => p,
        // a prover that refuses the padded key has produced no proof
        _ => return Verdict::Hold,
    };
    let r = catch(|| IpaPC::check(&w.vk, &comms, &pt, vec![v_claim], &proof, &mut sp_v, None).map_err(|e| errname(&e)));
    verdict(r, "IPA proof with an extra folding round under an identity-padded key", false)
}
