//! Shared transcript generator T(cfg): concrete-mode setup/trim, symbolic polynomials,
//! symbolic-mode commit, symbolic points, RO sponge.
use crate::engine::explore::{sym, with_sym_rng, Verdict};
use crate::engine::sf::{RNG_NONZERO, SF};
use crate::engine::sponge::RoSponge;
use crate::schemes::{Sch, Size};
use ark_crypto_primitives::sponge::CryptographicSponge;
use ark_ff::UniformRand;
use ark_poly::Polynomial;
use ark_poly_commit::{Evaluations, LabeledCommitment, LabeledPolynomial, PolynomialCommitment, QuerySet};
use ark_std::rand::{rngs::StdRng, SeedableRng};

pub type PCOf<S> = <S as Sch>::PC;
pub type POf<S> = <S as Sch>::P;
pub type PointOf<S> = <<S as Sch>::P as Polynomial<SF>>::Point;
pub type CkOf<S> = <PCOf<S> as PolynomialCommitment<SF, POf<S>>>::CommitterKey;
pub type PpOf<S> = <PCOf<S> as PolynomialCommitment<SF, POf<S>>>::UniversalParams;
pub type VkOf<S> = <PCOf<S> as PolynomialCommitment<SF, POf<S>>>::VerifierKey;
pub type CommOf<S> = <PCOf<S> as PolynomialCommitment<SF, POf<S>>>::Commitment;
pub type StateOf<S> = <PCOf<S> as PolynomialCommitment<SF, POf<S>>>::CommitmentState;
pub type ProofOf<S> = <PCOf<S> as PolynomialCommitment<SF, POf<S>>>::Proof;
pub type BatchProofOf<S> = <PCOf<S> as PolynomialCommitment<SF, POf<S>>>::BatchProof;

#[derive(Clone, Debug)]
pub struct PolySpec {
    /// univariate: number of coefficients; pst13: total degree + 1; multilinear: ignored
    pub len: usize,
    /// symbolic coefficients (else concrete-random from the seed)
    pub sym: bool,
    pub bound: Option<usize>,
    pub hiding: Option<usize>,
    /// the zero polynomial (every coefficient / evaluation is the concrete 0)
    pub zero: bool,
}
impl PolySpec {
    pub fn new(len: usize) -> Self {
        PolySpec { len, sym: true, bound: None, hiding: None, zero: false }
    }
    pub fn zero(mut self) -> Self {
        self.zero = true;
        self.sym = false;
        self
    }
    pub fn conc(mut self) -> Self {
        self.sym = false;
        self
    }
    pub fn bound(mut self, b: usize) -> Self {
        self.bound = Some(b);
        self
    }
    pub fn hide(mut self, h: usize) -> Self {
        self.hiding = Some(h);
        self
    }
}

#[derive(Clone, Debug)]
pub struct Cfg {
    pub sz: Size,
    pub polys: Vec<PolySpec>,
    /// enforced degree bounds passed to trim (None = derive from the polynomials' bounds)
    pub enforced: Option<Vec<usize>>,
    pub npoints: usize,
    /// (polynomial index, point index)
    pub queries: Vec<(usize, usize)>,
    /// points symbolic (else concrete-random)
    pub sym_points: bool,
    /// every point label carries the same point value (one symbolic or concrete-random point under all labels)
    pub share_point: bool,
    pub sym_rng: bool,
    pub rng_nonzero: bool,
    /// pre-seed the sponge with one symbolic absorb so that every squeezed challenge is a symbolic variable
    pub sym_ch: bool,
    pub rev_prover: bool,
    pub rev_verifier: bool,
    pub seed: u64,
    /// mixed into the seed of the SRS only: two configurations that differ in nothing else share polynomials,
    /// points and challenges but have independent trapdoors
    pub srs_salt: u64,
}
impl Cfg {
    pub fn new(sz: Size, polys: Vec<PolySpec>) -> Cfg {
        let n = polys.len();
        Cfg {
            sz,
            polys,
            enforced: None,
            npoints: 1,
            queries: (0..n).map(|i| (i, 0)).collect(),
            sym_points: true,
            share_point: false,
            sym_rng: true,
            rng_nonzero: false,
            sym_ch: true,
            rev_prover: false,
            rev_verifier: false,
            seed: 1,
            srs_salt: 0,
        }
    }
    pub fn points(mut self, n: usize, queries: Vec<(usize, usize)>) -> Cfg {
        self.npoints = n;
        self.queries = queries;
        self
    }
}

pub struct World<S: Sch> {
    pub cfg: Cfg,
    pub pp: PpOf<S>,
    pub ck: CkOf<S>,
    pub vk: VkOf<S>,
    pub lps: Vec<LabeledPolynomial<SF, POf<S>>>,
    pub coeffs: Vec<Vec<SF>>,
    pub comms: Vec<LabeledCommitment<CommOf<S>>>,
    pub states: Vec<StateOf<S>>,
    pub points: Vec<(String, PointOf<S>)>,
    pub rng: StdRng,
}

pub fn sponge(cfg: &Cfg, id: u64) -> RoSponge {
    let mut s = RoSponge::new(&id);
    if cfg.sym_ch {
        s.absorb(&sym("tr"));
    }
    s
}
/// a sponge in exactly the state `sponge(cfg, id)` produced earlier in this run (same symbolic pre-state)
pub fn sponge_like(pre: &RoSponge) -> RoSponge {
    pre.clone()
}

pub fn keys<S: Sch>(cfg: &Cfg) -> Result<(CkOf<S>, VkOf<S>, StdRng, PpOf<S>), Verdict> {
    let mut rng = StdRng::seed_from_u64(cfg.seed.wrapping_mul(0x9E37_79B9).wrapping_add(7));
    // the SRS has its own RNG: a confirmation replay re-draws the trapdoor and nothing else
    let mut srs_rng = StdRng::seed_from_u64(cfg.seed.wrapping_mul(0x51_7cc1).wrapping_add(13) ^ crate::engine::explore::replay_salt() ^ cfg.srs_salt);
    let pp = S::setup(&cfg.sz, &mut srs_rng).map_err(|e| Verdict::viol("setup-err", e))?;
    let enforced: Option<Vec<usize>> = match &cfg.enforced {
        Some(e) => Some(e.clone()),
        None => {
            let b: Vec<usize> = cfg.polys.iter().filter_map(|p| p.bound).collect();
            if b.is_empty() {
                None
            } else {
                Some(b)
            }
        }
    };
    let (ck, vk) = PCOf::<S>::trim(&pp, cfg.sz.supported, cfg.sz.hiding, enforced.as_deref()).map_err(|e| Verdict::viol("trim-err", errname(&e)))?;
    Ok((ck, vk, rng, pp))
}

pub fn polys<S: Sch>(cfg: &Cfg, rng: &mut StdRng) -> (Vec<LabeledPolynomial<SF, POf<S>>>, Vec<Vec<SF>>) {
    let mut lps = vec![];
    let mut all = vec![];
    for (i, ps) in cfg.polys.iter().enumerate() {
        let n = S::ncoeffs(&cfg.sz, ps.len);
        let c: Vec<SF> = (0..n).map(|j| if ps.zero { SF::conc(ark_ff::Zero::zero()) } else if ps.sym { sym(&format!("p{}c{}", i, j)) } else { SF::rand(rng) }).collect();
        let p = S::poly(&cfg.sz, c.clone());
        lps.push(LabeledPolynomial::new(format!("p{}", i), p, ps.bound, ps.hiding));
        all.push(c);
    }
    (lps, all)
}

pub fn points<S: Sch>(cfg: &Cfg, rng: &mut StdRng) -> Vec<(String, PointOf<S>)> {
    let mut first: Option<Vec<SF>> = None;
    (0..cfg.npoints)
        .map(|k| {
            let d = S::point_dim(&cfg.sz);
            let c: Vec<SF> = match (&first, cfg.share_point) {
                (Some(f), true) => f.clone(),
                _ => (0..d).map(|j| if cfg.sym_points { sym(&format!("z{}_{}", k, j)) } else { SF::rand(rng) }).collect(),
            };
            if first.is_none() {
                first = Some(c.clone());
            }
            (format!("z{}", k), S::point(&cfg.sz, c))
        })
        .collect()
}

pub fn build<S: Sch>(cfg: &Cfg) -> Result<World<S>, Verdict> {
    let (ck, vk, mut rng, pp) = keys::<S>(cfg)?;
    let (lps, coeffs) = polys::<S>(cfg, &mut rng);
    RNG_NONZERO.with(|c| c.set(cfg.rng_nonzero));
    let r = with_sym_rng(cfg.sym_rng, || PCOf::<S>::commit(&ck, &lps, Some(&mut rng)));
    let (comms, states) = r.map_err(|e| Verdict::viol(&format!("commit-err:{}", errname(&e)), format!("{:?}", e)))?;
    let pts = points::<S>(cfg, &mut rng);
    Ok(World { cfg: cfg.clone(), pp, ck, vk, lps, coeffs, comms, states, points: pts, rng })
}

impl<S: Sch> World<S> {
    pub fn query_set(&self) -> QuerySet<PointOf<S>> {
        let mut qs = QuerySet::new();
        for (pi, zi) in &self.cfg.queries {
            qs.insert((self.lps[*pi].label().clone(), (self.points[*zi].0.clone(), self.points[*zi].1.clone())));
        }
        qs
    }
    pub fn evaluations(&self) -> Evaluations<PointOf<S>, SF> {
        let mut ev = Evaluations::new();
        for (pi, zi) in &self.cfg.queries {
            ev.insert((self.lps[*pi].label().clone(), self.points[*zi].1.clone()), self.lps[*pi].evaluate(&self.points[*zi].1));
        }
        ev
    }
    /// indices of the polynomials queried at point `zi`, in list order
    pub fn at_point(&self, zi: usize) -> Vec<usize> {
        let mut v: Vec<usize> = self.cfg.queries.iter().filter(|q| q.1 == zi).map(|q| q.0).collect();
        v.sort();
        v.dedup();
        v
    }
    /// single-point open of the polynomials `idx` at point `zi`
    pub fn open(&mut self, idx: &[usize], zi: usize, sp: &mut RoSponge) -> Result<ProofOf<S>, String> {
        let lps: Vec<&LabeledPolynomial<SF, POf<S>>> = idx.iter().map(|i| &self.lps[*i]).collect();
        let comms: Vec<&LabeledCommitment<CommOf<S>>> = idx.iter().map(|i| &self.comms[*i]).collect();
        let states: Vec<&StateOf<S>> = idx.iter().map(|i| &self.states[*i]).collect();
        let pt = self.points[zi].1.clone();
        let rng = &mut self.rng;
        let sym_rng = self.cfg.sym_rng;
        with_sym_rng(sym_rng, || PCOf::<S>::open(&self.ck, lps, comms, &pt, sp, states, Some(rng))).map_err(|e| errname(&e))
    }
    pub fn check(&mut self, idx: &[usize], pt: &PointOf<S>, values: Vec<SF>, proof: &ProofOf<S>, sp: &mut RoSponge) -> Result<bool, String> {
        let comms: Vec<&LabeledCommitment<CommOf<S>>> = idx.iter().map(|i| &self.comms[*i]).collect();
        PCOf::<S>::check(&self.vk, comms, pt, values, proof, sp, Some(&mut self.rng)).map_err(|e| errname(&e))
    }
    pub fn batch_open(&mut self, qs: &QuerySet<PointOf<S>>, sp: &mut RoSponge) -> Result<BatchProofOf<S>, String> {
        let n = self.lps.len();
        let order: Vec<usize> = if self.cfg.rev_prover { (0..n).rev().collect() } else { (0..n).collect() };
        let lps: Vec<&LabeledPolynomial<SF, POf<S>>> = order.iter().map(|i| &self.lps[*i]).collect();
        let comms: Vec<&LabeledCommitment<CommOf<S>>> = order.iter().map(|i| &self.comms[*i]).collect();
        let states: Vec<&StateOf<S>> = order.iter().map(|i| &self.states[*i]).collect();
        let rng = &mut self.rng;
        let sym_rng = self.cfg.sym_rng;
        with_sym_rng(sym_rng, || PCOf::<S>::batch_open(&self.ck, lps, comms, qs, sp, states, Some(rng))).map_err(|e| errname(&e))
    }
    pub fn batch_check(&mut self, qs: &QuerySet<PointOf<S>>, ev: &Evaluations<PointOf<S>, SF>, proof: &BatchProofOf<S>, sp: &mut RoSponge, tape: u64) -> Result<bool, String> {
        let n = self.comms.len();
        let order: Vec<usize> = if self.cfg.rev_verifier { (0..n).rev().collect() } else { (0..n).collect() };
        let comms: Vec<&LabeledCommitment<CommOf<S>>> = order.iter().map(|i| &self.comms[*i]).collect();
        let mut vrng = StdRng::seed_from_u64(tape);
        PCOf::<S>::batch_check(&self.vk, comms, qs, ev, proof, sp, &mut vrng).map_err(|e| errname(&e))
    }
}

/// Variant name of an error value (stable key for findings), e.g. `MissingEvaluation`.
pub fn errname<E: core::fmt::Debug>(e: &E) -> String {
    let d = format!("{:?}", e);
    d.split(|c: char| !(c.is_alphanumeric() || c == '_')).next().unwrap_or("").to_string()
}

/// Catch a panic raised by library code and report its message and source file (not the line).
pub fn catch<T>(f: impl FnOnce() -> T) -> Result<T, String> {
    match std::panic::catch_unwind(std::panic::AssertUnwindSafe(f)) {
        Ok(v) => Ok(v),
        Err(e) => {
            crate::engine::sf::SYM_RNG.with(|c| c.set(false));
            let loc = crate::engine::explore::last_panic_file();
            let msg = if let Some(s) = e.downcast_ref::<String>() {
                s.clone()
            } else if let Some(s) = e.downcast_ref::<&str>() {
                s.to_string()
            } else {
                "panic".to_string()
            };
            let short: String = msg.chars().take(80).collect();
            Err(format!("panic@{}: {}", loc, short))
        }
    }
}

/// The shadow field elements (value + term) inside any serializable artefact, in serialization order.
pub fn terms_of<T: ark_serialize::CanonicalSerialize>(x: &T) -> Vec<SF> {
    crate::engine::ro::discard_pending();
    let mut b = vec![];
    let _ = x.serialize_uncompressed(&mut b);
    crate::engine::ro::take_pending().into_iter().map(|(t, v)| SF { v, t }).collect()
}
