//! C19: commitment and proof sizes follow each scheme's asymptotics.
//! Sizes are counted in field/group elements of the serialized artefact (the shadow group encodes
//! every element in 32 bytes; byte counts and serialized_size are tied to this by C12).
use super::c08::LinCommParts;
use super::common::*;
use crate::engine::explore::Verdict;
use crate::engine::ro::SER_QUIET;
use crate::engine::sf::SF;
use crate::schemes::*;
use ark_serialize::CanonicalSerialize;

fn count<T: CanonicalSerialize>(x: &T) -> (usize, usize) {
    SER_QUIET.with(|c| c.set(false));
    let n = terms_of(x).len();
    (n, x.serialized_size(ark_serialize::Compress::Yes))
}

/// honest transcript; `law(world, idx)` returns (expected commitment elements per polynomial, expected proof elements)
pub fn sizes<S: Sch>(cfg: &Cfg, law: impl Fn(&Cfg, usize) -> (usize, usize), proof_exact: bool) -> Verdict
where
    ProofOf<S>: CanonicalSerialize,
{
    let mut w = match build::<S>(cfg) {
        Ok(w) => w,
        Err(v) => return v,
    };
    let sp0 = sponge(cfg, 1);
    let (mut sp_p, mut sp_v) = (sp0.clone(), sp0.clone());
    let idx = w.at_point(0);
    let proof = match w.open(&idx, 0, &mut sp_p) {
        Ok(p) => p,
        Err(e) => return Verdict::viol(&format!("open-err:{}", e), e.clone()),
    };
    let pt = w.points[0].1.clone();
    let vals: Vec<SF> = idx.iter().map(|i| w.lps[*i].evaluate(&pt)).collect();
    match w.check(&idx, &pt, vals, &proof, &mut sp_v) {
        Ok(true) => {}
        r => return Verdict::viol("rejected", format!("{:?}", r)),
    }
    let (want_c, want_p) = law(cfg, idx.len());
    for (i, c) in w.comms.iter().enumerate() {
        let (n, _) = count(c.commitment());
        if n != want_c {
            return Verdict::viol("commitment-size", format!("commitment {} serializes {} elements, the scheme's law gives {}", i, n, want_c));
        }
    }
    let (n, bytes) = count(&proof);
    if (proof_exact && n != want_p) || (!proof_exact && n > want_p) {
        return Verdict::viol("proof-size", format!("opening proof serializes {} elements ({} bytes), the scheme's law gives {}{}", n, bytes, if proof_exact { "" } else { "at most " }, want_p));
    }
    Verdict::Hold
}

/// Ligero / Brakedown: constant-size commitment; proof within 4x of the best power-of-two row count
pub fn lincode<S: Sch>(cfg: &Cfg, distance: (usize, usize), sec: usize, rho: (usize, usize), wf: bool) -> Verdict
where
    CommOf<S>: LinCommParts,
    ProofOf<S>: CanonicalSerialize,
{
    let mut w = match build::<S>(cfg) {
        Ok(w) => w,
        Err(v) => return v,
    };
    // every polynomial of the configuration was committed in one call; each is opened on its own and judged
    // against its own size
    for pi in 0..w.lps.len() {
        let v = lincode_one::<S>(&mut w, cfg, pi, distance, sec, rho, wf);
        if !matches!(v, Verdict::Hold) {
            return v;
        }
    }
    // a joint opening of all of them is no larger than the separate openings together (each entry follows the same
    // law; nothing is shared upwards between entries of different size)
    if w.lps.len() > 1 {
        let all: Vec<usize> = (0..w.lps.len()).collect();
        let sp0 = sponge(cfg, 1);
        let joint = match w.open(&all, 0, &mut sp0.clone()) {
            Ok(p) => p,
            Err(e) => return Verdict::viol(&format!("open-err:{}", e), e.clone()),
        };
        let mut separate = 0usize;
        for pi in all.iter() {
            match w.open(&[*pi], 0, &mut sp0.clone()) {
                Ok(p) => separate += count(&p).0,
                Err(e) => return Verdict::viol(&format!("open-err:{}", e), e.clone()),
            }
        }
        let (nj, bytes) = count(&joint);
        if nj != separate {
            return Verdict::viol("proof-size", format!("a joint opening of {} polynomials serializes {} elements ({} bytes), their separate openings {} together", all.len(), nj, bytes, separate));
        }
    }
    Verdict::Hold
}

fn lincode_one<S: Sch>(w: &mut World<S>, cfg: &Cfg, pi: usize, distance: (usize, usize), sec: usize, rho: (usize, usize), wf: bool) -> Verdict
where
    CommOf<S>: LinCommParts,
    ProofOf<S>: CanonicalSerialize,
{
    let sp0 = sponge(cfg, 1);
    let mut sp_p = sp0.clone();
    let proof = match w.open(&[pi], 0, &mut sp_p) {
        Ok(p) => p,
        Err(e) => return Verdict::viol(&format!("open-err:{}", e), e.clone()),
    };
    let (n_rows, n_cols, n_ext, _) = w.comms[pi].commitment().parts();
    let (nc, _) = count(w.comms[pi].commitment());
    if nc != 1 {
        return Verdict::viol("commitment-size", format!("commitment serializes {} field elements besides its dimensions (expected: the root only)", nc));
    }
    let big_n = w.coeffs[pi].len().max(1);
    if n_rows * n_cols < big_n || n_rows * n_cols >= 4 * big_n.next_power_of_two() {
        return Verdict::viol("matrix-shape", format!("{} coefficients in a {} x {} matrix", big_n, n_rows, n_cols));
    }
    // the codeword is as long as the code's rate dictates for the chosen row length, not longer
    let want_ext = if rho.1 == 1 { (n_cols * rho.0).next_power_of_two() } else { (n_cols * rho.0 + rho.1 - 1) / rho.1 };
    if n_ext != want_ext {
        return Verdict::viol("codeword-length", format!("{} coefficients in a {} x {} matrix: rows are encoded to {} symbols, the code's rate gives {}", big_n, n_rows, n_cols, n_ext, want_ext));
    }
    // modelled proof size (in field elements / digests) for a matrix with r rows
    let model = |r: usize| -> Option<usize> {
        let m = (big_n + r - 1) / r;
        let ext = if rho.1 == 1 { (m * rho.0).next_power_of_two() } else { (m * rho.0 + rho.1 - 1) / rho.1 };
        // the harness's own exact t (capped at the codeword length), not the library's
        let t = super::c13::exact_t(sec, distance, ext as u128, 60000)?.min(ext);
        let depth = (ext.next_power_of_two().trailing_zeros() as usize).max(1);
        Some(t * r + t * depth + m + if wf { m } else { 0 })
    };
    let mut best = usize::MAX;
    let mut r = 1usize;
    while r <= big_n.next_power_of_two() {
        if let Some(s) = model(r) {
            best = best.min(s);
        }
        r *= 2;
    }
    let (np, bytes) = count(&proof);
    // structural law for the chosen shape: t columns of n_rows entries, t paths of `depth` digests,
    // the opened combination and the well-formedness vector - nothing else is shipped
    let t = match super::c13::exact_t(sec, distance, n_ext as u128, 60000) {
        Some(t) => t.min(n_ext),
        None => return Verdict::viol("t-error", "no t satisfies the bound for the scheme's own parameters"),
    };
    let depth = (n_ext.next_power_of_two().trailing_zeros() as usize).max(1);
    let structural = t * n_rows + t * depth + n_cols + if wf { n_cols } else { 0 };
    if np != structural {
        return Verdict::viol("proof-size", format!("proof for {} coefficients ({} x {} matrix, codeword {}, t = {}) serializes {} elements ({} bytes); t columns + t paths + v + well-formedness is {}", big_n, n_rows, n_cols, n_ext, t, np, bytes, structural));
    }
    // chosen shape against the best power-of-two row count: the property states this law (factor 4) for the regime
    // in which the required number of column openings is below the codeword length. Where t is capped by the
    // codeword length the model favours degenerate tall shapes (tiny codewords, hence tiny capped t) and the
    // comparison says nothing about the scheme: only the structural law above applies there.
    let uncapped = super::c13::exact_t(sec, distance, n_ext as u128, 60000).unwrap_or(usize::MAX);
    if uncapped < n_ext && np > 4 * best {
        return Verdict::viol("proof-shape", format!("proof for {} coefficients ({} x {} matrix, codeword {}, t = {} uncapped) serializes {} elements ({} bytes); 4 x the best power-of-two shape is {}", big_n, n_rows, n_cols, n_ext, t, np, bytes, 4 * best));
    }
    if std::env::var("SYMPC_SHAPE").is_ok() {
        eprintln!("SHAPE N={} {}x{} ext={} t_uncapped={} np={} best={} ratio={:.2} in_regime={}", big_n, n_rows, n_cols, n_ext, uncapped, np, best, np as f64 / best as f64, uncapped < n_ext);
    }
    Verdict::Hold
}
