//! The library's schemes instantiated over the shadow algebra, behind one small abstraction so the
//! property drivers can be written once for every `PolynomialCommitment` implementation.
use crate::engine::grp::{ToyPairing, TA};
use crate::engine::ro::{RoColHash, RoDigest, RoMT};
use crate::engine::sf::SF;
use ark_poly::{
    multivariate::{SparsePolynomial, SparseTerm, Term},
    univariate::DensePolynomial,
    DenseMVPolynomial, DenseMultilinearExtension, DenseUVPolynomial, Polynomial,
};
use ark_poly_commit::{
    hyrax::HyraxPC,
    ipa_pc::InnerProductArgPC,
    linear_codes::{LigeroPCParams, LinearCodePCS, MultilinearBrakedown, MultilinearLigero, UnivariateLigero},
    marlin_pc::MarlinKZG10,
    marlin_pst13_pc::MarlinPST13,
    sonic_pc::SonicKZG10,
    PolynomialCommitment,
};
use ark_std::rand::rngs::StdRng;

pub type UP = DensePolynomial<SF>;
pub type ML = DenseMultilinearExtension<SF>;
pub type MP = SparsePolynomial<SF, SparseTerm>;

pub type MarlinPC = MarlinKZG10<ToyPairing, UP>;
pub type SonicPC = SonicKZG10<ToyPairing, UP>;
pub type IpaPC = InnerProductArgPC<TA<1>, RoDigest, UP>;
pub type Pst13PC = MarlinPST13<ToyPairing, MP>;
pub type HyraxPCS = HyraxPC<TA<1>, ML>;
pub type LigeroUniPC = LinearCodePCS<UnivariateLigero<SF, RoMT, UP, RoColHash>, SF, UP, RoMT, RoColHash>;
pub type LigeroMlPC = LinearCodePCS<MultilinearLigero<SF, RoMT, ML, RoColHash>, SF, ML, RoMT, RoColHash>;
pub type BrakedownPC = LinearCodePCS<MultilinearBrakedown<SF, RoMT, ML, RoColHash>, SF, ML, RoMT, RoColHash>;

/// Machine-integer part of a configuration.
#[derive(Clone, Debug)]
pub struct Size {
    /// univariate: max_degree of the parameters; pst13: max total degree
    pub max_degree: usize,
    /// univariate: supported degree passed to trim; pst13: supported total degree
    pub supported: usize,
    /// number of variables (0 for univariate schemes)
    pub num_vars: usize,
    /// supported hiding bound passed to trim
    pub hiding: usize,
    /// Ligero: (security parameter, rho_inv, well-formedness check)
    pub ligero: (usize, usize, bool),
}
impl Size {
    pub fn uni(max_degree: usize, supported: usize, hiding: usize) -> Size {
        Size { max_degree, supported, num_vars: 0, hiding, ligero: (128, 4, true) }
    }
    pub fn mv(num_vars: usize, degree: usize, hiding: usize) -> Size {
        Size { max_degree: degree, supported: degree, num_vars, hiding, ligero: (128, 2, true) }
    }
}

pub trait Sch: 'static {
    type P: Polynomial<SF> + Clone + core::fmt::Debug;
    type PC: PolynomialCommitment<SF, Self::P>;
    const NAME: &'static str;
    const BOUNDS: bool = false;
    const HIDING: bool = false;
    const UNIVARIATE: bool = true;
    fn setup(sz: &Size, rng: &mut StdRng) -> Result<<Self::PC as PolynomialCommitment<SF, Self::P>>::UniversalParams, String>;
    /// number of coefficients/evaluations of a "full" polynomial for this size (univariate: `len`)
    fn ncoeffs(sz: &Size, len: usize) -> usize;
    fn poly(sz: &Size, coeffs: Vec<SF>) -> Self::P;
    fn point_dim(sz: &Size) -> usize;
    fn point(sz: &Size, coords: Vec<SF>) -> <Self::P as Polynomial<SF>>::Point;
    /// coordinates of a point (for perturbation drivers)
    fn point_coords(p: &<Self::P as Polynomial<SF>>::Point) -> Vec<SF>;
    /// first group element of an opening proof as a scalar in the exponent (for `W != 0` assumptions)
    fn proof_elem(_p: &<Self::PC as PolynomialCommitment<SF, Self::P>>::Proof, _k: usize) -> Option<SF> {
        None
    }
    /// the G1 generator published in the verifier key, as its exponent (pairing-based schemes)
    fn generator(_vk: &<Self::PC as PolynomialCommitment<SF, Self::P>>::VerifierKey) -> Option<SF> {
        None
    }
    /// replaces the k-th group element of an opening proof (pairing-based schemes); false if there is none
    fn set_proof_elem(_p: &mut <Self::PC as PolynomialCommitment<SF, Self::P>>::Proof, _k: usize, _v: SF) -> bool {
        false
    }
    /// reference evaluation from the raw coefficient list (independent of the polynomial type's own evaluate)
    fn ref_eval(sz: &Size, coeffs: &[SF], coords: &[SF]) -> SF;
}

fn horner(coeffs: &[SF], z: SF) -> SF {
    let mut acc = SF::conc(ark_ff::Zero::zero());
    for c in coeffs.iter().rev() {
        acc = acc * z + *c;
    }
    acc
}
/// multilinear evaluation from the hypercube table, little-endian variable order (ark-poly convention)
fn mle_eval(evals: &[SF], z: &[SF]) -> SF {
    let mut cur = evals.to_vec();
    for zi in z {
        let half = cur.len() / 2;
        let mut nxt = Vec::with_capacity(half);
        for j in 0..half {
            // variable 0 is the least significant bit of the index
            nxt.push(cur[2 * j] + *zi * (cur[2 * j + 1] - cur[2 * j]));
        }
        cur = nxt;
    }
    cur[0]
}

macro_rules! uni_common {
    () => {
        type P = UP;
        fn ncoeffs(_: &Size, len: usize) -> usize {
            len
        }
        fn poly(_: &Size, coeffs: Vec<SF>) -> UP {
            UP::from_coefficients_vec(coeffs)
        }
        fn point_dim(_: &Size) -> usize {
            1
        }
        fn point(_: &Size, c: Vec<SF>) -> SF {
            c[0]
        }
        fn point_coords(p: &SF) -> Vec<SF> {
            vec![*p]
        }
        fn ref_eval(_: &Size, coeffs: &[SF], z: &[SF]) -> SF {
            horner(coeffs, z[0])
        }
    };
}
macro_rules! ml_common {
    () => {
        type P = ML;
        const UNIVARIATE: bool = false;
        fn ncoeffs(sz: &Size, _: usize) -> usize {
            1 << sz.num_vars
        }
        fn poly(sz: &Size, coeffs: Vec<SF>) -> ML {
            ML::from_evaluations_vec(sz.num_vars, coeffs)
        }
        fn point_dim(sz: &Size) -> usize {
            sz.num_vars
        }
        fn point(_: &Size, c: Vec<SF>) -> Vec<SF> {
            c
        }
        fn point_coords(p: &Vec<SF>) -> Vec<SF> {
            p.clone()
        }
        fn ref_eval(_: &Size, coeffs: &[SF], z: &[SF]) -> SF {
            mle_eval(coeffs, z)
        }
    };
}

pub struct Marlin;
impl Sch for Marlin {
    type PC = MarlinPC;
    const NAME: &'static str = "marlin";
    const BOUNDS: bool = true;
    const HIDING: bool = true;
    fn setup(sz: &Size, rng: &mut StdRng) -> Result<<Self::PC as PolynomialCommitment<SF, UP>>::UniversalParams, String> {
        MarlinPC::setup(sz.max_degree, None, rng).map_err(|e| e.to_string())
    }
    fn proof_elem(p: &ark_poly_commit::kzg10::Proof<ToyPairing>, _k: usize) -> Option<SF> {
        Some(p.w.0)
    }
    fn generator(vk: &<Self::PC as PolynomialCommitment<SF, UP>>::VerifierKey) -> Option<SF> {
        Some(vk.vk.g.0)
    }
    fn set_proof_elem(p: &mut ark_poly_commit::kzg10::Proof<ToyPairing>, _k: usize, v: SF) -> bool {
        p.w = crate::engine::grp::TA(v);
        true
    }
    uni_common!();
}
pub struct Sonic;
impl Sch for Sonic {
    type PC = SonicPC;
    const NAME: &'static str = "sonic";
    const BOUNDS: bool = true;
    const HIDING: bool = true;
    fn setup(sz: &Size, rng: &mut StdRng) -> Result<<Self::PC as PolynomialCommitment<SF, UP>>::UniversalParams, String> {
        SonicPC::setup(sz.max_degree, None, rng).map_err(|e| e.to_string())
    }
    fn proof_elem(p: &ark_poly_commit::kzg10::Proof<ToyPairing>, _k: usize) -> Option<SF> {
        Some(p.w.0)
    }
    fn generator(vk: &<Self::PC as PolynomialCommitment<SF, UP>>::VerifierKey) -> Option<SF> {
        Some(vk.g.0)
    }
    fn set_proof_elem(p: &mut ark_poly_commit::kzg10::Proof<ToyPairing>, _k: usize, v: SF) -> bool {
        p.w = crate::engine::grp::TA(v);
        true
    }
    uni_common!();
}
pub struct Ipa;
impl Sch for Ipa {
    type PC = IpaPC;
    const NAME: &'static str = "ipa";
    const BOUNDS: bool = true;
    const HIDING: bool = true;
    fn setup(sz: &Size, rng: &mut StdRng) -> Result<<Self::PC as PolynomialCommitment<SF, UP>>::UniversalParams, String> {
        IpaPC::setup(sz.max_degree, None, rng).map_err(|e| e.to_string())
    }
    uni_common!();
}
pub struct LigeroUni;
impl Sch for LigeroUni {
    type PC = LigeroUniPC;
    const NAME: &'static str = "ligero-uni";
    fn setup(sz: &Size, _: &mut StdRng) -> Result<<Self::PC as PolynomialCommitment<SF, UP>>::UniversalParams, String> {
        Ok(LigeroPCParams::new(sz.ligero.0, sz.ligero.1, sz.ligero.2, (), (), ()))
    }
    uni_common!();
}
pub struct LigeroMl;
impl Sch for LigeroMl {
    type PC = LigeroMlPC;
    const NAME: &'static str = "ligero-ml";
    fn setup(sz: &Size, _: &mut StdRng) -> Result<<Self::PC as PolynomialCommitment<SF, ML>>::UniversalParams, String> {
        Ok(LigeroPCParams::new(sz.ligero.0, sz.ligero.1, sz.ligero.2, (), (), ()))
    }
    ml_common!();
}
pub struct Brakedown;
impl Sch for Brakedown {
    type PC = BrakedownPC;
    const NAME: &'static str = "brakedown";
    fn setup(sz: &Size, rng: &mut StdRng) -> Result<<Self::PC as PolynomialCommitment<SF, ML>>::UniversalParams, String> {
        BrakedownPC::setup(1, Some(sz.num_vars), rng).map_err(|e| e.to_string())
    }
    ml_common!();
}
/// Brakedown with hand-made parameters whose base length is 3, so that the *recursive* part of the code
/// (sparse matrices A, B around a Reed-Solomon core) is exercised at harness sizes: 2^nv evaluations in 2 rows,
/// message length m = 2^(nv-1), alpha = 0.178, beta = 0.061, r = 1.521 as in the library's defaults; the
/// dimension chain follows the paper (A: n x ceil(alpha n), B: ceil(r ceil(alpha n)) x (ceil(r n) - n - that));
/// two non-zero entries per row (one if there is a single column), concrete-random from the setup RNG.
pub struct BrakedownRec;
pub fn brakedown_rec_params(num_vars: usize, sec: usize, wf: bool, rng: &mut StdRng) -> ark_poly_commit::linear_codes::BrakedownPCParams<SF, RoMT, RoColHash> {
    use ark_ff::{UniformRand, Zero};
    use ark_poly_commit::linear_codes::verif_hooks::brakedown_params_from_flat;
    use ark_std::rand::RngCore;
    let (a, b, r) = ((178usize, 1000usize), (61usize, 1000usize), (1521usize, 1000usize));
    let cm = |n: usize, q: (usize, usize)| (n * q.0 + q.1 - 1) / q.1;
    let base_len = 3;
    let (rows, m) = (2usize, (1usize << num_vars) / 2);
    let mut a_dims = vec![];
    let mut n = m;
    while n >= base_len {
        let am = cm(n, a);
        a_dims.push((n, am, core::cmp::min(2, am)));
        n = am;
    }
    let b_dims: Vec<(usize, usize, usize)> = a_dims.iter().map(|&(an, am, _)| { let bn = cm(am, r); let bm = cm(an, r) - an - bn; (bn, bm, core::cmp::min(2, bm)) }).collect();
    let mut mk = |(n, m, d): (usize, usize, usize)| -> Vec<SF> {
        // column-major flat list, exactly d non-zero entries per row in distinct columns
        let mut flat = vec![SF::zero(); n * m];
        for i in 0..n {
            let first = (rng.next_u64() as usize) % m;
            for k in 0..d {
                let col = (first + k * (1 + (rng.next_u64() as usize) % core::cmp::max(1, m - 1))) % m;
                let col = if k > 0 && col == first { (first + 1) % m } else { col };
                let mut v = SF::rand(rng);
                while v.v.is_zero() {
                    v = SF::rand(rng);
                }
                flat[col * n + i] = v;
            }
        }
        flat
    };
    let a_mats: Vec<Vec<SF>> = a_dims.iter().map(|d| mk(*d)).collect();
    let b_mats: Vec<Vec<SF>> = b_dims.iter().map(|d| mk(*d)).collect();
    brakedown_params_from_flat(sec, a, b, r, base_len, rows, m, a_dims, b_dims, &a_mats, &b_mats, wf, (), (), ())
}
impl Sch for BrakedownRec {
    type PC = BrakedownPC;
    const NAME: &'static str = "brakedown-rec";
    fn setup(sz: &Size, rng: &mut StdRng) -> Result<<Self::PC as PolynomialCommitment<SF, ML>>::UniversalParams, String> {
        if sz.num_vars < 3 {
            return Err("brakedown-rec needs at least 3 variables".into());
        }
        Ok(brakedown_rec_params(sz.num_vars, sz.ligero.0, sz.ligero.2, rng))
    }
    ml_common!();
}
pub struct Hyrax;
impl Sch for Hyrax {
    type PC = HyraxPCS;
    const NAME: &'static str = "hyrax";
    const HIDING: bool = true;
    fn setup(sz: &Size, rng: &mut StdRng) -> Result<<Self::PC as PolynomialCommitment<SF, ML>>::UniversalParams, String> {
        HyraxPCS::setup(1, Some(sz.num_vars), rng).map_err(|e| e.to_string())
    }
    ml_common!();
}

/// all exponent vectors of total degree <= d in nv variables, as SparseTerm input lists, graded order
pub fn monomials(nv: usize, d: usize) -> Vec<Vec<(usize, usize)>> {
    fn rec(nv: usize, var: usize, left: usize, cur: &mut Vec<(usize, usize)>, out: &mut Vec<Vec<(usize, usize)>>) {
        if var == nv {
            out.push(cur.clone());
            return;
        }
        for e in 0..=left {
            if e > 0 {
                cur.push((var, e));
            }
            rec(nv, var + 1, left - e, cur, out);
            if e > 0 {
                cur.pop();
            }
        }
    }
    let mut out = vec![];
    rec(nv, 0, d, &mut vec![], &mut out);
    out.sort_by_key(|m| m.iter().map(|x| x.1).sum::<usize>());
    out
}

pub struct Pst13;
impl Sch for Pst13 {
    type P = MP;
    type PC = Pst13PC;
    const NAME: &'static str = "pst13";
    const HIDING: bool = true;
    const UNIVARIATE: bool = false;
    fn setup(sz: &Size, rng: &mut StdRng) -> Result<<Self::PC as PolynomialCommitment<SF, MP>>::UniversalParams, String> {
        Pst13PC::setup(sz.max_degree, Some(sz.num_vars), rng).map_err(|e| e.to_string())
    }
    fn proof_elem(p: &ark_poly_commit::marlin_pst13_pc::Proof<ToyPairing>, k: usize) -> Option<SF> {
        p.w.get(k).map(|w| w.0)
    }
    fn generator(vk: &<Self::PC as PolynomialCommitment<SF, MP>>::VerifierKey) -> Option<SF> {
        Some(vk.g.0)
    }
    fn set_proof_elem(p: &mut ark_poly_commit::marlin_pst13_pc::Proof<ToyPairing>, k: usize, v: SF) -> bool {
        if k < p.w.len() {
            p.w[k] = crate::engine::grp::TA(v);
            true
        } else {
            false
        }
    }
    fn ncoeffs(sz: &Size, len: usize) -> usize {
        // `len` = total degree + 1 of the dense polynomial to build (capped by supported)
        monomials(sz.num_vars, (len.max(1) - 1).min(sz.supported)).len()
    }
    fn poly(sz: &Size, coeffs: Vec<SF>) -> MP {
        let mut d = 0;
        while monomials(sz.num_vars, d).len() < coeffs.len() {
            d += 1;
        }
        let monos = monomials(sz.num_vars, d);
        let terms: Vec<(SF, SparseTerm)> = coeffs.into_iter().zip(monos.iter()).map(|(c, m)| (c, SparseTerm::new(m.clone()))).collect();
        MP::from_coefficients_vec(sz.num_vars, terms)
    }
    fn point_dim(sz: &Size) -> usize {
        sz.num_vars
    }
    fn point(_: &Size, c: Vec<SF>) -> Vec<SF> {
        c
    }
    fn point_coords(p: &Vec<SF>) -> Vec<SF> {
        p.clone()
    }
    fn ref_eval(sz: &Size, coeffs: &[SF], z: &[SF]) -> SF {
        let mut d = 0;
        while monomials(sz.num_vars, d).len() < coeffs.len() {
            d += 1;
        }
        let monos = monomials(sz.num_vars, d);
        let mut acc = SF::conc(ark_ff::Zero::zero());
        for (c, m) in coeffs.iter().zip(monos.iter()) {
            let mut t = *c;
            for (v, e) in m {
                for _ in 0..*e {
                    t = t * z[*v];
                }
            }
            acc = acc + t;
        }
        acc
    }
}
