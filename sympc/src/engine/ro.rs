//! Random-oracle layer.
//!
//! * serialization log: `CanonicalSerialize`/`Absorb` on shadow values write the real bytes and also
//!   push `(term, value, bytes)` on a pending list; a random oracle that receives bytes claims the
//!   pending entries whose bytes occur, in order, in its input. Claimed entries are the oracle call's
//!   symbolic *arguments*; the remaining bytes (with the claimed regions blanked) are its *skeleton*.
//! * oracle memo: calls with the same family and skeleton form a class. A call whose argument values
//!   equal a previous call of the class is a hit: it returns the same output term and records the
//!   pairwise argument equalities as path conditions. Otherwise it is a miss: for every previous
//!   call of the class the first differing argument pair is recorded as a disequality, and the
//!   output is a fresh variable (non-zero, with the oracle's bit range). Every call is also pushed
//!   to the arena as an `RoEntry`, from which the SMT encoder derives the collision-resistance axioms.
use super::sf::SF;
use super::term::{canon_eq, pin, Kind, Node, RoEntry, Tid, ARENA};
use ark_bls12_381::Fr;
use ark_ff::{Field, PrimeField};
use blake2::Blake2s256;
use digest::Digest;
use std::cell::RefCell;
use std::collections::HashMap;

pub const FAM_DIGEST: u8 = 1;
pub const FAM_SPONGE: u8 = 2;
pub const FAM_COLHASH: u8 = 11;
pub const FAM_LEAFHASH: u8 = 12;
pub const FAM_TWOTOONE: u8 = 13;

#[derive(Clone)]
struct Call {
    argvals: Vec<Fr>,
    args: Vec<Tid>,
    out_v: Option<Fr>,
    out_t: Tid,
}

#[derive(Default)]
struct Store {
    classes: HashMap<(u8, Vec<u8>), u64>,
    calls: HashMap<u64, Vec<Call>>,
    pub fresh: usize,
    pub hits: usize,
    pub concrete: usize,
}

thread_local! {
    static SERLOG: RefCell<Vec<(Tid, Fr, Vec<u8>)>> = RefCell::new(vec![]);
    static DIGEST_OUT: RefCell<HashMap<Vec<u8>, (Vec<u8>, Vec<(Tid, Fr)>)>> = RefCell::new(HashMap::new());
    static STORE: RefCell<Store> = RefCell::new(Store::default());
    /// when set, pending serializations that no oracle claims are NOT pinned (driver is serializing on purpose)
    pub static SER_QUIET: std::cell::Cell<bool> = std::cell::Cell::new(false);
}

pub fn reset() {
    SERLOG.with(|s| s.borrow_mut().clear());
    DIGEST_OUT.with(|s| s.borrow_mut().clear());
    STORE.with(|s| *s.borrow_mut() = Store::default());
    SER_QUIET.with(|c| c.set(false));
}
pub fn stats() -> (usize, usize, usize) {
    STORE.with(|s| {
        let s = s.borrow();
        (s.fresh, s.hits, s.concrete)
    })
}

pub fn log_ser(t: Tid, v: Fr, bytes: Vec<u8>) {
    if SER_QUIET.with(|c| c.get()) {
        return;
    }
    SERLOG.with(|s| s.borrow_mut().push((t, v, bytes)));
}

fn is_sym(t: Tid) -> bool {
    ARENA.with(|a| !a.borrow().is_const(t))
}

/// Drop pending serializations (the driver serialized something on purpose, e.g. to measure sizes).
pub fn discard_pending() {
    SERLOG.with(|s| s.borrow_mut().clear());
}

/// Take the pending serializations (used by drivers to read the terms inside an opaque artefact).
pub fn take_pending() -> Vec<(Tid, Fr)> {
    SERLOG.with(|s| std::mem::take(&mut *s.borrow_mut())).into_iter().map(|(t, v, _)| (t, v)).collect()
}

/// At the end of a run: symbolic values that were serialized but never reached an oracle went
/// somewhere the engine cannot follow: concretise them.
pub fn flush_pending() {
    let left: Vec<(Tid, Fr, Vec<u8>)> = SERLOG.with(|s| std::mem::take(&mut *s.borrow_mut()));
    for (t, v, _) in left {
        if is_sym(t) {
            pin(t, v, "serialized symbolic value never reached a random oracle");
        }
    }
}

/// Split `input` into (skeleton, args): the pending serializations that occur in order inside it.
/// Pending symbolic entries that do not occur are concretised (they went somewhere else).
pub fn claim(input: &[u8]) -> (Vec<u8>, Vec<(Tid, Fr)>) {
    let pending: Vec<(Tid, Fr, Vec<u8>)> = SERLOG.with(|s| std::mem::take(&mut *s.borrow_mut()));
    let mut skel = input.to_vec();
    let mut cur = 0usize;
    let mut out = vec![];
    for (t, v, b) in pending {
        let mut matched = false;
        if !b.is_empty() && cur + b.len() <= input.len() {
            if let Some(pos) = input[cur..].windows(b.len()).position(|w| w == &b[..]) {
                for x in skel[cur + pos..cur + pos + b.len()].iter_mut() {
                    *x = 0xA5;
                }
                out.push((t, v));
                cur += pos + b.len();
                matched = true;
            }
        }
        if !matched && is_sym(t) {
            pin(t, v, "serialized symbolic value bypassed the random oracle");
        }
    }
    (skel, out)
}

fn default_value(family: u8, skel: &[u8], argvals: &[Fr], bits: u32) -> Fr {
    let mut h = Blake2s256::new();
    Digest::update(&mut h, [family]);
    Digest::update(&mut h, (skel.len() as u64).to_le_bytes());
    Digest::update(&mut h, skel);
    for v in argvals {
        for l in v.into_bigint().0 {
            Digest::update(&mut h, l.to_le_bytes());
        }
    }
    let d = h.finalize();
    let mut v = Fr::from_le_bytes_mod_order(&d);
    if bits != 0 && bits < 255 {
        let mut b = v.into_bigint();
        for k in (bits as usize)..256 {
            b.0[k / 64] &= !(1u64 << (k % 64));
        }
        v = Fr::from_bigint(b).unwrap();
    }
    if v == Fr::from(0u8) {
        v = Fr::from(1u8);
    }
    v
}

/// The oracle. `concrete_out`: what a call with only concrete arguments returns (None = "no value",
/// e.g. `from_random_bytes` rejecting the digest); symbolic calls always return a value.
pub fn ro_query(
    family: u8,
    skel: Vec<u8>,
    args: Vec<(Tid, Fr)>,
    bits: u32,
    name: &str,
    concrete_out: Option<Option<Fr>>,
) -> Option<SF> {
    let argvals: Vec<Fr> = args.iter().map(|a| a.1).collect();
    let tids: Vec<Tid> = args.iter().map(|a| a.0).collect();
    let (class, prev): (u64, Vec<Call>) = STORE.with(|s| {
        let mut s = s.borrow_mut();
        let n = s.classes.len() as u64;
        let c = *s.classes.entry((family, skel.clone())).or_insert(n);
        (c, s.calls.get(&c).cloned().unwrap_or_default())
    });
    // compare with the previous calls of the class in order: record the comparison outcome for each,
    // stop at the first hit
    let mut hit: Option<Call> = None;
    ARENA.with(|a| {
        let mut a = a.borrow_mut();
        for c in &prev {
            match (0..argvals.len()).find(|k| c.argvals[*k] != argvals[*k]) {
                None => {
                    for (x, y) in c.args.iter().zip(tids.iter()) {
                        if x != y {
                            a.record_kind(canon_eq(*x, *y), true, Kind::RoArg);
                        }
                    }
                    hit = Some(c.clone());
                    break;
                }
                Some(k) => {
                    for j in 0..k {
                        if c.args[j] != tids[j] {
                            a.record_kind(canon_eq(c.args[j], tids[j]), true, Kind::RoArg);
                        }
                    }
                    if c.args[k] != tids[k] {
                        a.record_kind(canon_eq(c.args[k], tids[k]), false, Kind::RoArg);
                    }
                }
            }
        }
    });
    if let Some(c) = hit {
        STORE.with(|s| s.borrow_mut().hits += 1);
        return c.out_v.map(|v| SF { v, t: c.out_t });
    }
    let symbolic = tids.iter().any(|t| is_sym(*t));
    let out: Option<SF> = if !symbolic {
        STORE.with(|s| s.borrow_mut().concrete += 1);
        match concrete_out {
            Some(o) => o.map(SF::conc),
            None => Some(SF::conc(default_value(family, &skel, &argvals, bits))),
        }
    } else {
        STORE.with(|s| s.borrow_mut().fresh += 1);
        let d = default_value(family, &skel, &argvals, bits);
        Some(super::explore::sym_ro(name, d, bits))
    };
    let (out_v, out_t) = match out {
        Some(x) => (Some(x.v), x.tid()),
        None => (None, 0),
    };
    if out_v.is_some() {
        ARENA.with(|a| {
            a.borrow_mut().ro_entries.push(RoEntry { family, class, out: out_t, args: tids.clone() })
        });
    }
    STORE.with(|s| {
        s.borrow_mut().calls.entry(class).or_default().push(Call { argvals, args: tids, out_v, out_t: if out_t == 0 { 0 } else { out_t } })
    });
    let _ = Kind::Branch;
    let _ = Node::Var(0);
    out
}

// ---------------- byte-level RO digest (IPA's `D`) ----------------

#[derive(Default, Clone)]
pub struct RoDigest {
    buf: Vec<u8>,
}
impl digest::Update for RoDigest {
    fn update(&mut self, d: &[u8]) {
        self.buf.extend_from_slice(d)
    }
}
impl digest::OutputSizeUser for RoDigest {
    type OutputSize = digest::consts::U32;
}
impl digest::HashMarker for RoDigest {}
impl digest::FixedOutput for RoDigest {
    fn finalize_into(self, out: &mut digest::Output<Self>) {
        let h = Blake2s256::digest(&self.buf);
        out.copy_from_slice(&h);
        let (skel, args) = claim(&self.buf);
        DIGEST_OUT.with(|d| d.borrow_mut().insert(h.to_vec(), (skel, args)));
    }
}

/// Called by `SF::from_random_bytes`: if `bytes` is an `RoDigest` output, answer from the oracle.
/// Returns None if `bytes` is not a known digest (caller falls back to the concrete conversion).
pub fn ro_lookup(bytes: &[u8]) -> Option<Option<(Fr, Tid)>> {
    let (skel, args) = DIGEST_OUT.with(|d| d.borrow().get(bytes).cloned())?;
    let conc = Fr::from_random_bytes(bytes);
    let r = ro_query(FAM_DIGEST, skel, args, 0, "rod", Some(conc));
    Some(r.map(|x| (x.v, x.t)))
}

// ---------------- RO hashes with symbolic digests (Merkle config) ----------------
use ark_crypto_primitives::crh::{CRHScheme, TwoToOneCRHScheme};
use ark_crypto_primitives::merkle_tree::{Config, IdentityDigestConverter};
use ark_serialize::{CanonicalDeserialize, CanonicalSerialize, Compress, SerializationError, Valid, Validate};
use std::borrow::Borrow;

#[derive(Clone, Copy, Default, Debug, PartialEq, Eq, Hash)]
pub struct SymDigest(pub SF);
impl AsRef<SymDigest> for SymDigest {
    fn as_ref(&self) -> &SymDigest {
        self
    }
}
impl Valid for SymDigest {
    fn check(&self) -> Result<(), SerializationError> {
        Ok(())
    }
}
impl CanonicalSerialize for SymDigest {
    fn serialize_with_mode<W: ark_std::io::Write>(&self, w: W, c: Compress) -> Result<(), SerializationError> {
        self.0.serialize_with_mode(w, c)
    }
    fn serialized_size(&self, c: Compress) -> usize {
        self.0.serialized_size(c)
    }
}
impl CanonicalDeserialize for SymDigest {
    fn deserialize_with_mode<R: ark_std::io::Read>(r: R, c: Compress, v: Validate) -> Result<Self, SerializationError> {
        SF::deserialize_with_mode(r, c, v).map(SymDigest)
    }
}
impl ark_crypto_primitives::sponge::Absorb for SymDigest {
    fn to_sponge_bytes(&self, dest: &mut Vec<u8>) {
        self.0.to_sponge_bytes(dest)
    }
    fn to_sponge_field_elements<F: PrimeField>(&self, dest: &mut Vec<F>) {
        self.0.to_sponge_field_elements(dest)
    }
}

fn ro_hash(family: u8, args: &[SF]) -> SymDigest {
    let a: Vec<(Tid, Fr)> = args.iter().map(|x| (x.tid(), x.v)).collect();
    let skel = (args.len() as u64).to_le_bytes().to_vec();
    SymDigest(ro_query(family, skel, a, 0, "h", None).unwrap())
}

pub struct RoColHash;
impl CRHScheme for RoColHash {
    type Input = Vec<SF>;
    type Output = SymDigest;
    type Parameters = ();
    fn setup<R: ark_std::rand::Rng>(_: &mut R) -> Result<(), ark_crypto_primitives::Error> {
        Ok(())
    }
    fn evaluate<T: Borrow<Vec<SF>>>(_: &(), i: T) -> Result<SymDigest, ark_crypto_primitives::Error> {
        Ok(ro_hash(FAM_COLHASH, i.borrow()))
    }
}
pub struct RoLeafHash;
impl CRHScheme for RoLeafHash {
    type Input = SymDigest;
    type Output = SymDigest;
    type Parameters = ();
    fn setup<R: ark_std::rand::Rng>(_: &mut R) -> Result<(), ark_crypto_primitives::Error> {
        Ok(())
    }
    fn evaluate<T: Borrow<SymDigest>>(_: &(), i: T) -> Result<SymDigest, ark_crypto_primitives::Error> {
        Ok(ro_hash(FAM_LEAFHASH, &[i.borrow().0]))
    }
}
pub struct RoTwoToOne;
impl TwoToOneCRHScheme for RoTwoToOne {
    type Input = SymDigest;
    type Output = SymDigest;
    type Parameters = ();
    fn setup<R: ark_std::rand::Rng>(_: &mut R) -> Result<(), ark_crypto_primitives::Error> {
        Ok(())
    }
    fn evaluate<T: Borrow<SymDigest>>(_: &(), l: T, r: T) -> Result<SymDigest, ark_crypto_primitives::Error> {
        Ok(ro_hash(FAM_TWOTOONE, &[l.borrow().0, r.borrow().0]))
    }
    fn compress<T: Borrow<SymDigest>>(p: &(), l: T, r: T) -> Result<SymDigest, ark_crypto_primitives::Error> {
        Self::evaluate(p, l.borrow(), r.borrow())
    }
}
#[derive(Clone)]
pub struct RoMT;
impl Config for RoMT {
    type Leaf = SymDigest;
    type LeafDigest = SymDigest;
    type LeafInnerDigestConverter = IdentityDigestConverter<SymDigest>;
    type InnerDigest = SymDigest;
    type LeafHash = RoLeafHash;
    type TwoToOneHash = RoTwoToOne;
}
