//! Symbolic-shadow prime field: concrete value in BLS12-381 Fr + term id.
use super::sbig::SymBig;
use super::term::{canon_eq, pin, Cond, Node, Tid, ARENA};
use ark_bls12_381::Fr;
use ark_ff::{BigInteger as _,
    AdditiveGroup, BigInt, FftField, Field, LegendreSymbol, One, PrimeField, SqrtPrecomputation,
    Zero,
};
use ark_serialize::{
    CanonicalDeserialize, CanonicalDeserializeWithFlags, CanonicalSerialize,
    CanonicalSerializeWithFlags, Compress, Flags, SerializationError, Valid, Validate,
};
use ark_std::rand::{
    distributions::{Distribution, Standard},
    Rng,
};
use core::cmp::Ordering;
use core::fmt;
use core::hash::{Hash, Hasher};
use core::iter::{Product, Sum};
use core::ops::*;
use core::str::FromStr;
use num_bigint::BigUint;
use zeroize::Zeroize;

#[derive(Clone, Copy)]
pub struct SF {
    pub v: Fr,
    pub t: Tid,
}

impl SF {
    pub const fn conc(v: Fr) -> Self {
        SF { v, t: 0 }
    }
    /// term id, materialising a Const node for concrete values
    pub fn tid(&self) -> Tid {
        if self.t != 0 {
            self.t
        } else {
            let limbs = self.v.into_bigint().0;
            ARENA.with(|a| a.borrow_mut().mk(Node::Const(limbs)))
        }
    }
    pub fn is_sym(&self) -> bool {
        self.t != 0
    }
    pub fn var(name: &str, val: Fr) -> Self {
        Self::var_full(name, val, 0, false)
    }
    /// `bits` != 0: the variable ranges over [0, 2^bits); `nonzero`: environment assumption x != 0
    pub fn var_full(name: &str, val: Fr, bits: u32, nonzero: bool) -> Self {
        ARENA.with(|a| {
            let mut a = a.borrow_mut();
            a.var_bits.push(bits);
            a.var_nonzero.push(nonzero);
            a.var_kind.push(if name.starts_with("ch") || name == "rod" || name == "h" { 1 } else if name.starts_with("rng") { 2 } else { 0 });
            let idx = a.var_vals.len() as u32;
            a.var_vals.push(val);
            a.var_names.push(name.to_string());
            let t = a.mk(Node::Var(idx));
            SF { v: val, t }
        })
    }
    fn bin(self, o: SF, v: Fr, f: fn(Tid, Tid) -> Node) -> SF {
        if self.t == 0 && o.t == 0 {
            return SF::conc(v);
        }
        let (a, b) = (self.tid(), o.tid());
        let t = ARENA.with(|ar| ar.borrow_mut().mk(f(a, b)));
        SF { v, t }
    }
}

impl Default for SF {
    fn default() -> Self {
        SF::conc(Fr::ZERO)
    }
}
impl fmt::Debug for SF {
    fn fmt(&self, f: &mut fmt::Formatter<'_>) -> fmt::Result {
        write!(f, "{}#{}", self.v, self.t)
    }
}
impl fmt::Display for SF {
    fn fmt(&self, f: &mut fmt::Formatter<'_>) -> fmt::Result {
        write!(f, "{}", self.v)
    }
}
impl PartialEq for SF {
    fn eq(&self, o: &Self) -> bool {
        let r = self.v == o.v;
        if (self.t != 0 || o.t != 0) && self.t != o.t {
            let (a, b) = (self.tid(), o.tid());
            ARENA.with(|ar| ar.borrow_mut().record(canon_eq(a, b), r));
        }
        r
    }
}
impl Eq for SF {}
impl Hash for SF {
    fn hash<H: Hasher>(&self, h: &mut H) {
        // a hash of a symbolic value is an untracked dependency: concretise
        pin(self.t, self.v, "Hash::hash on a symbolic field element");
        self.v.hash(h)
    }
}
impl Ord for SF {
    fn cmp(&self, o: &Self) -> Ordering {
        let r = self.v.cmp(&o.v);
        if (self.t != 0 || o.t != 0) && self.t != o.t {
            let (a, b) = (self.tid(), o.tid());
            ARENA.with(|ar| {
                let mut ar = ar.borrow_mut();
                ar.record(canon_eq(a, b), r == Ordering::Equal);
                if r != Ordering::Equal {
                    ar.record(Cond::Lt(a, b), r == Ordering::Less);
                }
            });
        }
        r
    }
}
impl PartialOrd for SF {
    fn partial_cmp(&self, o: &Self) -> Option<Ordering> {
        Some(self.cmp(o))
    }
}
impl Zeroize for SF {
    fn zeroize(&mut self) {
        *self = SF::default()
    }
}
impl Zero for SF {
    fn zero() -> Self {
        SF::conc(Fr::ZERO)
    }
    fn is_zero(&self) -> bool {
        *self == SF::conc(Fr::ZERO)
    }
}
impl One for SF {
    fn one() -> Self {
        SF::conc(Fr::ONE)
    }
    fn is_one(&self) -> bool {
        *self == SF::conc(Fr::ONE)
    }
}
impl Neg for SF {
    type Output = SF;
    fn neg(self) -> SF {
        if self.t == 0 {
            return SF::conc(-self.v);
        }
        let t = ARENA.with(|ar| ar.borrow_mut().mk(Node::Neg(self.t)));
        SF { v: -self.v, t }
    }
}

fn add(a: SF, b: SF) -> SF {
    if a.t == 0 && a.v.is_zero() {
        return b;
    }
    if b.t == 0 && b.v.is_zero() {
        return a;
    }
    a.bin(b, a.v + b.v, Node::Add)
}
fn sub(a: SF, b: SF) -> SF {
    if b.t == 0 && b.v.is_zero() {
        return a;
    }
    if a.t == b.t && a.t != 0 {
        return SF::conc(Fr::ZERO);
    }
    a.bin(b, a.v - b.v, Node::Sub)
}
fn mul(a: SF, b: SF) -> SF {
    if (a.t == 0 && a.v.is_zero()) || (b.t == 0 && b.v.is_zero()) {
        return SF::conc(Fr::ZERO);
    }
    if a.t == 0 && a.v.is_one() {
        return b;
    }
    if b.t == 0 && b.v.is_one() {
        return a;
    }
    a.bin(b, a.v * b.v, Node::Mul)
}
fn inv(a: SF) -> Option<SF> {
    if a.is_zero() {
        // is_zero() recorded the branch
        return None;
    }
    if a.t == 0 {
        return Some(SF::conc(a.v.inverse().unwrap()));
    }
    let t = ARENA.with(|ar| ar.borrow_mut().mk(Node::Inv(a.t)));
    Some(SF {
        v: a.v.inverse().unwrap(),
        t,
    })
}
fn div(a: SF, b: SF) -> SF {
    mul(a, inv(b).expect("division by zero"))
}

macro_rules! impl_ops {
    ($tr:ident, $m:ident, $tra:ident, $ma:ident, $f:ident) => {
        impl $tr<SF> for SF {
            type Output = SF;
            fn $m(self, o: SF) -> SF {
                $f(self, o)
            }
        }
        impl<'a> $tr<&'a SF> for SF {
            type Output = SF;
            fn $m(self, o: &'a SF) -> SF {
                $f(self, *o)
            }
        }
        impl<'a> $tr<&'a mut SF> for SF {
            type Output = SF;
            fn $m(self, o: &'a mut SF) -> SF {
                $f(self, *o)
            }
        }
        impl<'a, 'b> $tr<&'b SF> for &'a SF {
            type Output = SF;
            fn $m(self, o: &'b SF) -> SF {
                $f(*self, *o)
            }
        }
        impl $tra<SF> for SF {
            fn $ma(&mut self, o: SF) {
                *self = $f(*self, o)
            }
        }
        impl<'a> $tra<&'a SF> for SF {
            fn $ma(&mut self, o: &'a SF) {
                *self = $f(*self, *o)
            }
        }
        impl<'a> $tra<&'a mut SF> for SF {
            fn $ma(&mut self, o: &'a mut SF) {
                *self = $f(*self, *o)
            }
        }
    };
}
impl_ops!(Add, add, AddAssign, add_assign, add);
impl_ops!(Sub, sub, SubAssign, sub_assign, sub);
impl_ops!(Mul, mul, MulAssign, mul_assign, mul);
impl_ops!(Div, div, DivAssign, div_assign, div);

impl Sum<SF> for SF {
    fn sum<I: Iterator<Item = SF>>(i: I) -> SF {
        i.fold(SF::zero(), add)
    }
}
impl<'a> Sum<&'a SF> for SF {
    fn sum<I: Iterator<Item = &'a SF>>(i: I) -> SF {
        i.fold(SF::zero(), |a, b| add(a, *b))
    }
}
impl Product<SF> for SF {
    fn product<I: Iterator<Item = SF>>(i: I) -> SF {
        i.fold(SF::one(), mul)
    }
}
impl<'a> Product<&'a SF> for SF {
    fn product<I: Iterator<Item = &'a SF>>(i: I) -> SF {
        i.fold(SF::one(), |a, b| mul(a, *b))
    }
}

macro_rules! impl_from {
    ($($t:ty),*) => {$(impl From<$t> for SF { fn from(x: $t) -> SF { SF::conc(Fr::from(x)) } })*};
}
impl_from!(u128, u64, u32, u16, u8, i128, i64, i32, i16, i8, bool);

thread_local! {
    /// symbolic mode of the RNG stub: every `F::rand` yields a fresh variable
    pub static SYM_RNG: core::cell::Cell<bool> = core::cell::Cell::new(false);
    /// environment assumption for symbolic RNG draws: the drawn value is non-zero
    pub static RNG_NONZERO: core::cell::Cell<bool> = core::cell::Cell::new(false);
    /// number of field elements drawn from any RNG since the last reset
    pub static RNG_DRAWS: core::cell::Cell<usize> = core::cell::Cell::new(0);
}

impl Distribution<SF> for Standard {
    fn sample<R: Rng + ?Sized>(&self, rng: &mut R) -> SF {
        let v: Fr = rng.sample(Standard);
        RNG_DRAWS.with(|c| c.set(c.get() + 1));
        if SYM_RNG.with(|c| c.get()) {
            // the concrete value of the draw comes from the exploration input when one is given
            super::explore::sym_rng_draw(v)
        } else {
            SF::conc(v)
        }
    }
}

impl Valid for SF {
    fn check(&self) -> Result<(), SerializationError> {
        Ok(())
    }
}
impl CanonicalSerialize for SF {
    fn serialize_with_mode<W: ark_std::io::Write>(
        &self,
        w: W,
        c: Compress,
    ) -> Result<(), SerializationError> {
        let mut b = vec![];
        self.v.serialize_with_mode(&mut b, c)?;
        super::ro::log_ser(self.tid(), self.v, b);
        self.v.serialize_with_mode(w, c)
    }
    fn serialized_size(&self, c: Compress) -> usize {
        self.v.serialized_size(c)
    }
}
impl CanonicalSerializeWithFlags for SF {
    fn serialize_with_flags<W: ark_std::io::Write, F: Flags>(
        &self,
        w: W,
        f: F,
    ) -> Result<(), SerializationError> {
        pin(self.t, self.v, "serialize_with_flags on a symbolic field element");
        self.v.serialize_with_flags(w, f)
    }
    fn serialized_size_with_flags<F: Flags>(&self) -> usize {
        self.v.serialized_size_with_flags::<F>()
    }
}
impl CanonicalDeserialize for SF {
    fn deserialize_with_mode<R: ark_std::io::Read>(
        r: R,
        c: Compress,
        v: Validate,
    ) -> Result<Self, SerializationError> {
        Fr::deserialize_with_mode(r, c, v).map(SF::conc)
    }
}
impl CanonicalDeserializeWithFlags for SF {
    fn deserialize_with_flags<R: ark_std::io::Read, F: Flags>(
        r: R,
    ) -> Result<(Self, F), SerializationError> {
        Fr::deserialize_with_flags::<R, F>(r).map(|(v, f)| (SF::conc(v), f))
    }
}

impl AdditiveGroup for SF {
    type Scalar = SF;
    const ZERO: SF = SF::conc(Fr::ZERO);
}

impl Field for SF {
    type BasePrimeField = SF;
    const SQRT_PRECOMP: Option<SqrtPrecomputation<SF>> = None;
    const ONE: SF = SF::conc(Fr::ONE);
    fn extension_degree() -> u64 {
        1
    }
    fn to_base_prime_field_elements(&self) -> impl Iterator<Item = SF> {
        core::iter::once(*self)
    }
    fn from_base_prime_field_elems(e: impl IntoIterator<Item = SF>) -> Option<SF> {
        let mut it = e.into_iter();
        let x = it.next()?;
        if it.next().is_some() {
            return None;
        }
        Some(x)
    }
    fn from_base_prime_field(e: SF) -> SF {
        e
    }
    fn from_random_bytes_with_flags<F: Flags>(bytes: &[u8]) -> Option<(SF, F)> {
        if F::BIT_SIZE == 0 {
            if let Some(r) = super::ro::ro_lookup(bytes) {
                return r.map(|(v, t)| (SF { v, t }, F::from_u8(0).unwrap()));
            }
        }
        Fr::from_random_bytes_with_flags::<F>(bytes).map(|(v, f)| (SF::conc(v), f))
    }
    fn legendre(&self) -> LegendreSymbol {
        self.v.legendre()
    }
    fn square(&self) -> SF {
        mul(*self, *self)
    }
    fn square_in_place(&mut self) -> &mut SF {
        *self = mul(*self, *self);
        self
    }
    fn inverse(&self) -> Option<SF> {
        inv(*self)
    }
    fn inverse_in_place(&mut self) -> Option<&mut SF> {
        let i = inv(*self)?;
        *self = i;
        Some(self)
    }
    fn frobenius_map_in_place(&mut self, _: usize) {}
    fn mul_by_base_prime_field(&self, e: &SF) -> SF {
        mul(*self, *e)
    }
}

impl FftField for SF {
    const GENERATOR: SF = SF::conc(<Fr as FftField>::GENERATOR);
    const TWO_ADICITY: u32 = <Fr as FftField>::TWO_ADICITY;
    const TWO_ADIC_ROOT_OF_UNITY: SF = SF::conc(<Fr as FftField>::TWO_ADIC_ROOT_OF_UNITY);
}

pub enum Next { Fresh(String, u32), Existing(Tid) }
thread_local! { pub static NEXT_SYM: core::cell::RefCell<Option<Next>> = core::cell::RefCell::new(None); pub static LAST_TID: core::cell::Cell<Tid> = core::cell::Cell::new(0); }

impl PrimeField for SF {
    type BigInt = SymBig;
    const MODULUS: SymBig = SymBig::conc(<Fr as PrimeField>::MODULUS);
    const MODULUS_MINUS_ONE_DIV_TWO: SymBig = SymBig::conc(<Fr as PrimeField>::MODULUS_MINUS_ONE_DIV_TWO);
    const MODULUS_BIT_SIZE: u32 = <Fr as PrimeField>::MODULUS_BIT_SIZE;
    const TRACE: SymBig = SymBig::conc(<Fr as PrimeField>::TRACE);
    const TRACE_MINUS_ONE_DIV_TWO: SymBig = SymBig::conc(<Fr as PrimeField>::TRACE_MINUS_ONE_DIV_TWO);
    fn from_bigint(r: SymBig) -> Option<SF> {
        let v = Fr::from_bigint(r.b)?;
        if r.t != 0 {
            return Some(SF { v, t: r.t });
        }
        match NEXT_SYM.with(|n| n.borrow_mut().take()) {
            Some(Next::Fresh(name, bits)) => { let x = SF::var_full(&name, v, bits, true); LAST_TID.with(|c| c.set(x.t)); return Some(x); }
            Some(Next::Existing(t)) => return Some(SF { v, t }),
            None => {}
        }
        Some(SF::conc(v))
    }
    fn into_bigint(self) -> SymBig {
        SymBig { b: self.v.into_bigint(), t: self.t }
    }
}
impl FromStr for SF {
    type Err = ();
    fn from_str(s: &str) -> Result<SF, ()> {
        Fr::from_str(s).map(SF::conc)
    }
}
impl From<SymBig> for SF {
    fn from(b: SymBig) -> SF {
        SF::from_bigint(b).unwrap()
    }
}
impl From<SF> for SymBig {
    fn from(s: SF) -> SymBig {
        s.into_bigint()
    }
}
impl From<BigUint> for SF {
    fn from(b: BigUint) -> SF {
        SF::conc(Fr::from(b))
    }
}
impl From<SF> for BigUint {
    fn from(s: SF) -> BigUint {
        s.v.into()
    }
}

impl ark_crypto_primitives::sponge::Absorb for SF {
    fn to_sponge_bytes(&self, dest: &mut Vec<u8>) {
        let mut b = vec![];
        self.v.serialize_compressed(&mut b).unwrap();
        super::ro::log_ser(self.tid(), self.v, b.clone());
        dest.extend_from_slice(&b);
    }
    fn to_sponge_field_elements<F: PrimeField>(&self, dest: &mut Vec<F>) {
        pin(self.t, self.v, "to_sponge_field_elements on a symbolic field element");
        let bytes = self.v.into_bigint().to_bytes_le();
        dest.push(F::from_le_bytes_mod_order(&bytes));
    }
}
