//! Toy bilinear groups "in the exponent": G1 = G2 = (F,+) with known discrete logs, e(a,b) = a*b.
use super::sbig::SymBig;
use super::sf::SF;
use ark_ec::{
    pairing::{MillerLoopOutput, Pairing, PairingOutput},
    AffineRepr, CurveConfig, CurveGroup, PrimeGroup, ScalarMul, VariableBaseMSM,
};
use ark_ff::{
    AdditiveGroup, CyclotomicMultSubgroup, Field, LegendreSymbol, One, PrimeField,
    SqrtPrecomputation, Zero,
};
use ark_serialize::{
    CanonicalDeserialize, CanonicalDeserializeWithFlags, CanonicalSerialize,
    CanonicalSerializeWithFlags, Compress, Flags, SerializationError, Valid, Validate,
};
use ark_std::rand::{
    distributions::{Distribution, Standard},
    Rng,
};
use core::fmt;
use core::iter::{Product, Sum};
use core::ops::*;
use zeroize::Zeroize;

#[derive(Clone, Copy, Default, Debug, PartialEq, Eq, Hash)]
pub struct TG<const I: u8>(pub SF);
#[derive(Clone, Copy, Default, Debug, PartialEq, Eq, Hash)]
pub struct TA<const I: u8>(pub SF);

pub struct Cfg<const I: u8>;
impl<const I: u8> CurveConfig for Cfg<I> {
    type BaseField = SF;
    type ScalarField = SF;
    const COFACTOR: &'static [u64] = &[1];
    const COFACTOR_INV: SF = <SF as Field>::ONE;
}

/// filler byte of the second half of an uncompressed toy group element
pub const UNCOMPRESSED_PAD: u8 = 0xEE;

macro_rules! common {
    ($T:ident) => {
        impl<const I: u8> fmt::Display for $T<I> {
            fn fmt(&self, f: &mut fmt::Formatter<'_>) -> fmt::Result {
                write!(f, "[{}]", self.0)
            }
        }
        impl<const I: u8> Zeroize for $T<I> {
            fn zeroize(&mut self) {
                self.0.zeroize()
            }
        }
        impl<const I: u8> Valid for $T<I> {
            fn check(&self) -> Result<(), SerializationError> {
                Ok(())
            }
        }
        impl<const I: u8> CanonicalSerialize for $T<I> {
            fn serialize_with_mode<W: ark_std::io::Write>(
                &self,
                w: W,
                c: Compress,
            ) -> Result<(), SerializationError> {
                // like a curve point, the uncompressed form is twice as long as the compressed one: the
                // exponent is followed by a constant 32-byte block (value-independent, so that hashing an
                // uncompressed element concretises nothing); validation checks the block
                let mut w = w;
                self.0.serialize_with_mode(&mut w, c)?;
                if c == Compress::No {
                    w.write_all(&[UNCOMPRESSED_PAD; 32]).map_err(SerializationError::IoError)?;
                }
                Ok(())
            }
            fn serialized_size(&self, c: Compress) -> usize {
                self.0.serialized_size(c) + if c == Compress::No { 32 } else { 0 }
            }
        }
        impl<const I: u8> CanonicalDeserialize for $T<I> {
            fn deserialize_with_mode<R: ark_std::io::Read>(
                r: R,
                c: Compress,
                v: Validate,
            ) -> Result<Self, SerializationError> {
                let mut r = r;
                let x = SF::deserialize_with_mode(&mut r, c, v)?;
                if c == Compress::No {
                    let mut pad = [0u8; 32];
                    r.read_exact(&mut pad).map_err(SerializationError::IoError)?;
                    if v == Validate::Yes && pad != [UNCOMPRESSED_PAD; 32] {
                        return Err(SerializationError::InvalidData);
                    }
                }
                Ok($T(x))
            }
        }
        impl<const I: u8> Distribution<$T<I>> for Standard {
            fn sample<R: Rng + ?Sized>(&self, rng: &mut R) -> $T<I> {
                $T(rng.sample(Standard))
            }
        }
        impl<const I: u8> Neg for $T<I> {
            type Output = $T<I>;
            fn neg(self) -> $T<I> {
                $T(-self.0)
            }
        }
        impl<const I: u8> Mul<SF> for $T<I> {
            type Output = TG<I>;
            fn mul(self, s: SF) -> TG<I> {
                TG(self.0 * s)
            }
        }
        impl<'a, const I: u8> Mul<&'a SF> for $T<I> {
            type Output = TG<I>;
            fn mul(self, s: &'a SF) -> TG<I> {
                TG(self.0 * *s)
            }
        }
        impl<'a, const I: u8> Mul<&'a mut SF> for $T<I> {
            type Output = TG<I>;
            fn mul(self, s: &'a mut SF) -> TG<I> {
                TG(self.0 * *s)
            }
        }
    };
}
common!(TG);
common!(TA);

// additive ops: (lhs type, rhs type) -> TG
macro_rules! addsub {
    ($L:ident, $R:ident) => {
        impl<const I: u8> Add<$R<I>> for $L<I> {
            type Output = TG<I>;
            fn add(self, o: $R<I>) -> TG<I> {
                TG(self.0 + o.0)
            }
        }
        impl<'a, const I: u8> Add<&'a $R<I>> for $L<I> {
            type Output = TG<I>;
            fn add(self, o: &'a $R<I>) -> TG<I> {
                TG(self.0 + o.0)
            }
        }
        impl<const I: u8> Sub<$R<I>> for $L<I> {
            type Output = TG<I>;
            fn sub(self, o: $R<I>) -> TG<I> {
                TG(self.0 - o.0)
            }
        }
        impl<'a, const I: u8> Sub<&'a $R<I>> for $L<I> {
            type Output = TG<I>;
            fn sub(self, o: &'a $R<I>) -> TG<I> {
                TG(self.0 - o.0)
            }
        }
    };
}
addsub!(TG, TG);
addsub!(TG, TA);
addsub!(TA, TA);
addsub!(TA, TG);
macro_rules! assignops {
    ($R:ident) => {
        impl<const I: u8> AddAssign<$R<I>> for TG<I> {
            fn add_assign(&mut self, o: $R<I>) {
                self.0 += o.0
            }
        }
        impl<'a, const I: u8> AddAssign<&'a $R<I>> for TG<I> {
            fn add_assign(&mut self, o: &'a $R<I>) {
                self.0 += o.0
            }
        }
        impl<const I: u8> SubAssign<$R<I>> for TG<I> {
            fn sub_assign(&mut self, o: $R<I>) {
                self.0 -= o.0
            }
        }
        impl<'a, const I: u8> SubAssign<&'a $R<I>> for TG<I> {
            fn sub_assign(&mut self, o: &'a $R<I>) {
                self.0 -= o.0
            }
        }
        impl<const I: u8> Sum<$R<I>> for TG<I> {
            fn sum<It: Iterator<Item = $R<I>>>(i: It) -> TG<I> {
                i.fold(TG(SF::zero()), |a, b| a + b)
            }
        }
        impl<'a, const I: u8> Sum<&'a $R<I>> for TG<I> {
            fn sum<It: Iterator<Item = &'a $R<I>>>(i: It) -> TG<I> {
                i.fold(TG(SF::zero()), |a, b| a + *b)
            }
        }
    };
}
assignops!(TG);
assignops!(TA);
impl<'a, const I: u8> Add<&'a mut TG<I>> for TG<I> {
    type Output = TG<I>;
    fn add(self, o: &'a mut TG<I>) -> TG<I> {
        TG(self.0 + o.0)
    }
}
impl<'a, const I: u8> Sub<&'a mut TG<I>> for TG<I> {
    type Output = TG<I>;
    fn sub(self, o: &'a mut TG<I>) -> TG<I> {
        TG(self.0 - o.0)
    }
}
impl<'a, const I: u8> AddAssign<&'a mut TG<I>> for TG<I> {
    fn add_assign(&mut self, o: &'a mut TG<I>) {
        self.0 += o.0
    }
}
impl<'a, const I: u8> SubAssign<&'a mut TG<I>> for TG<I> {
    fn sub_assign(&mut self, o: &'a mut TG<I>) {
        self.0 -= o.0
    }
}
impl<const I: u8> MulAssign<SF> for TG<I> {
    fn mul_assign(&mut self, s: SF) {
        self.0 *= s
    }
}
impl<'a, const I: u8> MulAssign<&'a SF> for TG<I> {
    fn mul_assign(&mut self, s: &'a SF) {
        self.0 *= *s
    }
}
impl<'a, const I: u8> MulAssign<&'a mut SF> for TG<I> {
    fn mul_assign(&mut self, s: &'a mut SF) {
        self.0 *= *s
    }
}
impl<const I: u8> Zero for TG<I> {
    fn zero() -> Self {
        TG(SF::zero())
    }
    fn is_zero(&self) -> bool {
        self.0.is_zero()
    }
}
impl<const I: u8> From<TA<I>> for TG<I> {
    fn from(a: TA<I>) -> Self {
        TG(a.0)
    }
}
impl<const I: u8> From<TG<I>> for TA<I> {
    fn from(a: TG<I>) -> Self {
        TA(a.0)
    }
}
impl<const I: u8> AdditiveGroup for TG<I> {
    type Scalar = SF;
    const ZERO: Self = TG(<SF as AdditiveGroup>::ZERO);
}
impl<const I: u8> PrimeGroup for TG<I> {
    type ScalarField = SF;
    fn generator() -> Self {
        TG(SF::one())
    }
    fn mul_bigint(&self, o: impl AsRef<[u64]>) -> Self {
        let mut l = [0u64; 4];
        for (i, x) in o.as_ref().iter().take(4).enumerate() {
            l[i] = *x;
        }
        TG(self.0 * SF::from(SymBig::conc(ark_ff::BigInt(l))))
    }
}
impl<const I: u8> ScalarMul for TG<I> {
    type MulBase = TA<I>;
    const NEGATION_IS_CHEAP: bool = true;
    fn batch_convert_to_mul_base(b: &[Self]) -> Vec<TA<I>> {
        b.iter().map(|x| TA(x.0)).collect()
    }
    fn batch_mul(self, v: &[SF]) -> Vec<TA<I>> {
        v.iter().map(|s| TA(self.0 * *s)).collect()
    }
}
impl<const I: u8> VariableBaseMSM for TG<I> {
    fn msm_bigint(bases: &[TA<I>], bigints: &[SymBig]) -> Self {
        let mut acc = SF::zero();
        for (b, s) in bases.iter().zip(bigints.iter()) {
            acc += b.0 * SF::from(*s);
        }
        TG(acc)
    }
}
impl<const I: u8> CurveGroup for TG<I> {
    type Config = Cfg<I>;
    type BaseField = SF;
    type Affine = TA<I>;
    type FullGroup = TA<I>;
    fn normalize_batch(v: &[Self]) -> Vec<TA<I>> {
        v.iter().map(|x| TA(x.0)).collect()
    }
}
impl<const I: u8> AffineRepr for TA<I> {
    type Config = Cfg<I>;
    type ScalarField = SF;
    type BaseField = SF;
    type Group = TG<I>;
    fn xy(&self) -> Option<(SF, SF)> {
        if self.0.is_zero() {
            None
        } else {
            Some((self.0, self.0))
        }
    }
    fn zero() -> Self {
        TA(SF::zero())
    }
    fn is_zero(&self) -> bool {
        self.0.is_zero()
    }
    fn generator() -> Self {
        TA(SF::one())
    }
    fn from_random_bytes(bytes: &[u8]) -> Option<Self> {
        SF::from_random_bytes(bytes).map(TA)
    }
    fn mul_bigint(&self, by: impl AsRef<[u64]>) -> TG<I> {
        TG(self.0).mul_bigint(by)
    }
    fn clear_cofactor(&self) -> Self {
        *self
    }
    fn mul_by_cofactor_to_group(&self) -> TG<I> {
        TG(self.0)
    }
}

// ---------------- target "field": multiplicative group written in the exponent -------------
#[derive(Clone, Copy, Default, Debug, PartialEq, Eq, Hash, PartialOrd, Ord)]
pub struct GT {
    pub e: SF,
    pub fz: bool,
}
impl GT {
    const fn exp(e: SF) -> GT {
        GT { e, fz: false }
    }
}
impl fmt::Display for GT {
    fn fmt(&self, f: &mut fmt::Formatter<'_>) -> fmt::Result {
        write!(f, "gT^{}", self.e)
    }
}
impl Zeroize for GT {
    fn zeroize(&mut self) {
        self.e.zeroize()
    }
}
impl Zero for GT {
    fn zero() -> GT {
        GT {
            e: <SF as AdditiveGroup>::ZERO,
            fz: true,
        }
    }
    fn is_zero(&self) -> bool {
        self.fz
    }
}
impl One for GT {
    fn one() -> GT {
        GT::exp(SF::zero())
    }
    fn is_one(&self) -> bool {
        !self.fz && self.e.is_zero()
    }
}
fn gmul(a: GT, b: GT) -> GT {
    assert!(!a.fz && !b.fz);
    GT::exp(a.e + b.e)
}
fn gdiv(a: GT, b: GT) -> GT {
    assert!(!a.fz && !b.fz);
    GT::exp(a.e - b.e)
}
fn gadd(_: GT, _: GT) -> GT {
    unimplemented!("GT additive structure is not modelled")
}
macro_rules! gops {
    ($tr:ident, $m:ident, $tra:ident, $ma:ident, $f:ident) => {
        impl $tr<GT> for GT {
            type Output = GT;
            fn $m(self, o: GT) -> GT {
                $f(self, o)
            }
        }
        impl<'a> $tr<&'a GT> for GT {
            type Output = GT;
            fn $m(self, o: &'a GT) -> GT {
                $f(self, *o)
            }
        }
        impl<'a> $tr<&'a mut GT> for GT {
            type Output = GT;
            fn $m(self, o: &'a mut GT) -> GT {
                $f(self, *o)
            }
        }
        impl $tra<GT> for GT {
            fn $ma(&mut self, o: GT) {
                *self = $f(*self, o)
            }
        }
        impl<'a> $tra<&'a GT> for GT {
            fn $ma(&mut self, o: &'a GT) {
                *self = $f(*self, *o)
            }
        }
        impl<'a> $tra<&'a mut GT> for GT {
            fn $ma(&mut self, o: &'a mut GT) {
                *self = $f(*self, *o)
            }
        }
    };
}
gops!(Add, add, AddAssign, add_assign, gadd);
gops!(Sub, sub, SubAssign, sub_assign, gadd);
gops!(Mul, mul, MulAssign, mul_assign, gmul);
gops!(Div, div, DivAssign, div_assign, gdiv);
impl Neg for GT {
    type Output = GT;
    fn neg(self) -> GT {
        unimplemented!()
    }
}
impl Sum<GT> for GT {
    fn sum<I: Iterator<Item = GT>>(_: I) -> GT {
        unimplemented!()
    }
}
impl<'a> Sum<&'a GT> for GT {
    fn sum<I: Iterator<Item = &'a GT>>(_: I) -> GT {
        unimplemented!()
    }
}
impl Product<GT> for GT {
    fn product<I: Iterator<Item = GT>>(i: I) -> GT {
        i.fold(GT::one(), gmul)
    }
}
impl<'a> Product<&'a GT> for GT {
    fn product<I: Iterator<Item = &'a GT>>(i: I) -> GT {
        i.fold(GT::one(), |a, b| gmul(a, *b))
    }
}
macro_rules! gfrom {
    ($($t:ty),*) => {$(impl From<$t> for GT { fn from(x: $t) -> GT { if x as i128 == 1 { GT::one() } else if x as i128 == 0 { GT::zero() } else { unimplemented!() } } })*};
}
gfrom!(u128, u64, u32, u16, u8, i128, i64, i32, i16, i8);
impl From<bool> for GT {
    fn from(b: bool) -> GT {
        if b {
            GT::one()
        } else {
            GT::zero()
        }
    }
}
impl Distribution<GT> for Standard {
    fn sample<R: Rng + ?Sized>(&self, rng: &mut R) -> GT {
        GT::exp(rng.sample(Standard))
    }
}
impl Valid for GT {
    fn check(&self) -> Result<(), SerializationError> {
        Ok(())
    }
}
impl CanonicalSerialize for GT {
    fn serialize_with_mode<W: ark_std::io::Write>(
        &self,
        w: W,
        c: Compress,
    ) -> Result<(), SerializationError> {
        self.e.serialize_with_mode(w, c)
    }
    fn serialized_size(&self, c: Compress) -> usize {
        self.e.serialized_size(c)
    }
}
impl CanonicalSerializeWithFlags for GT {
    fn serialize_with_flags<W: ark_std::io::Write, F: Flags>(
        &self,
        w: W,
        f: F,
    ) -> Result<(), SerializationError> {
        self.e.serialize_with_flags(w, f)
    }
    fn serialized_size_with_flags<F: Flags>(&self) -> usize {
        self.e.serialized_size_with_flags::<F>()
    }
}
impl CanonicalDeserialize for GT {
    fn deserialize_with_mode<R: ark_std::io::Read>(
        r: R,
        c: Compress,
        v: Validate,
    ) -> Result<Self, SerializationError> {
        SF::deserialize_with_mode(r, c, v).map(GT::exp)
    }
}
impl CanonicalDeserializeWithFlags for GT {
    fn deserialize_with_flags<R: ark_std::io::Read, F: Flags>(
        r: R,
    ) -> Result<(Self, F), SerializationError> {
        SF::deserialize_with_flags::<R, F>(r).map(|(e, f)| (GT::exp(e), f))
    }
}
impl AdditiveGroup for GT {
    type Scalar = GT;
    const ZERO: GT = GT {
        e: <SF as AdditiveGroup>::ZERO,
        fz: true,
    };
}
impl Field for GT {
    type BasePrimeField = SF;
    const SQRT_PRECOMP: Option<SqrtPrecomputation<GT>> = None;
    const ONE: GT = GT::exp(<SF as AdditiveGroup>::ZERO);
    fn extension_degree() -> u64 {
        12
    }
    fn to_base_prime_field_elements(&self) -> impl Iterator<Item = SF> {
        core::iter::once(self.e)
    }
    fn from_base_prime_field_elems(_: impl IntoIterator<Item = SF>) -> Option<GT> {
        unimplemented!()
    }
    fn from_base_prime_field(_: SF) -> GT {
        unimplemented!()
    }
    fn from_random_bytes_with_flags<F: Flags>(_: &[u8]) -> Option<(GT, F)> {
        unimplemented!()
    }
    fn legendre(&self) -> LegendreSymbol {
        unimplemented!()
    }
    fn square(&self) -> GT {
        gmul(*self, *self)
    }
    fn square_in_place(&mut self) -> &mut GT {
        *self = gmul(*self, *self);
        self
    }
    fn inverse(&self) -> Option<GT> {
        if self.fz {
            None
        } else {
            Some(GT::exp(-self.e))
        }
    }
    fn inverse_in_place(&mut self) -> Option<&mut GT> {
        let i = self.inverse()?;
        *self = i;
        Some(self)
    }
    fn frobenius_map_in_place(&mut self, _: usize) {
        unimplemented!()
    }
    fn mul_by_base_prime_field(&self, _: &SF) -> GT {
        unimplemented!()
    }
}
impl CyclotomicMultSubgroup for GT {}

#[derive(Clone, Copy, Debug, PartialEq, Eq)]
pub struct ToyPairing;
impl Pairing for ToyPairing {
    type BaseField = SF;
    type ScalarField = SF;
    type G1 = TG<1>;
    type G1Affine = TA<1>;
    type G1Prepared = TA<1>;
    type G2 = TG<2>;
    type G2Affine = TA<2>;
    type G2Prepared = TA<2>;
    type TargetField = GT;
    fn multi_miller_loop(
        a: impl IntoIterator<Item = impl Into<TA<1>>>,
        b: impl IntoIterator<Item = impl Into<TA<2>>>,
    ) -> MillerLoopOutput<Self> {
        let mut acc = SF::zero();
        for (x, y) in a.into_iter().zip(b) {
            let (x, y): (TA<1>, TA<2>) = (x.into(), y.into());
            acc += x.0 * y.0;
        }
        MillerLoopOutput(GT::exp(acc))
    }
    fn final_exponentiation(m: MillerLoopOutput<Self>) -> Option<PairingOutput<Self>> {
        Some(PairingOutput(m.0))
    }
}
impl<'a, const I: u8> From<&'a TA<I>> for TA<I> {
    fn from(a: &'a TA<I>) -> Self {
        *a
    }
}
impl<'a, const I: u8> From<&'a TG<I>> for TA<I> {
    fn from(a: &'a TG<I>) -> Self {
        TA(a.0)
    }
}
