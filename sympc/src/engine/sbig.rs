//! BigInteger that remembers which symbolic field element it was converted from.
use super::term::{pin, Tid};
use ark_ff::PrimeField as _;
use ark_ff::{BigInt, BigInteger};
use ark_serialize::{
    CanonicalDeserialize, CanonicalSerialize, Compress, SerializationError, Valid, Validate,
};
use ark_std::rand::{
    distributions::{Distribution, Standard},
    Rng,
};
use core::fmt;
use core::ops::*;
use core::str::FromStr;
use num_bigint::BigUint;
use zeroize::Zeroize;

type B = BigInt<4>;

#[derive(Clone, Copy, Default)]
pub struct SymBig {
    pub b: B,
    /// term of the field element this integer is the canonical representative of (0 = none)
    pub t: Tid,
}
impl SymBig {
    pub const fn conc(b: B) -> Self {
        SymBig { b, t: 0 }
    }
    /// the integer is about to be used bit-wise: the engine cannot follow, concretise the term
    fn leak(&self, why: &str) {
        if self.t != 0 {
            if let Some(v) = ark_bls12_381::Fr::from_bigint(self.b) {
                pin(self.t, v, why);
            }
        }
    }
}
impl PartialEq for SymBig {
    fn eq(&self, o: &Self) -> bool {
        self.leak("SymBig comparison");
        o.leak("SymBig comparison");
        self.b == o.b
    }
}
impl Eq for SymBig {}
impl PartialOrd for SymBig {
    fn partial_cmp(&self, o: &Self) -> Option<core::cmp::Ordering> {
        Some(self.cmp(o))
    }
}
impl Ord for SymBig {
    fn cmp(&self, o: &Self) -> core::cmp::Ordering {
        self.leak("SymBig comparison");
        o.leak("SymBig comparison");
        self.b.cmp(&o.b)
    }
}
impl fmt::Debug for SymBig {
    fn fmt(&self, f: &mut fmt::Formatter<'_>) -> fmt::Result {
        write!(f, "{:?}#{}", self.b, self.t)
    }
}
impl fmt::Display for SymBig {
    fn fmt(&self, f: &mut fmt::Formatter<'_>) -> fmt::Result {
        write!(f, "{}", self.b)
    }
}
impl Zeroize for SymBig {
    fn zeroize(&mut self) {
        self.b.zeroize();
        self.t = 0;
    }
}
impl AsRef<[u64]> for SymBig {
    fn as_ref(&self) -> &[u64] {
        self.leak("SymBig::as_ref (limbs of a symbolic scalar)");
        self.b.as_ref()
    }
}
impl AsMut<[u64]> for SymBig {
    fn as_mut(&mut self) -> &mut [u64] {
        self.leak("SymBig::as_mut");
        self.leak("SymBig bit operation");
        self.t = 0;
        self.b.as_mut()
    }
}
macro_rules! from_u {
    ($($t:ty),*) => {$(impl From<$t> for SymBig { fn from(x: $t) -> Self { SymBig::conc(B::from(x)) } })*};
}
from_u!(u64, u32, u16, u8);
impl TryFrom<BigUint> for SymBig {
    type Error = ();
    fn try_from(v: BigUint) -> Result<Self, ()> {
        B::try_from(v).map(SymBig::conc)
    }
}
impl From<SymBig> for BigUint {
    fn from(s: SymBig) -> BigUint {
        s.b.into()
    }
}
impl FromStr for SymBig {
    type Err = ();
    fn from_str(s: &str) -> Result<Self, ()> {
        B::from_str(s).map(SymBig::conc)
    }
}
impl Distribution<SymBig> for Standard {
    fn sample<R: Rng + ?Sized>(&self, rng: &mut R) -> SymBig {
        SymBig::conc(rng.sample(Standard))
    }
}
impl Valid for SymBig {
    fn check(&self) -> Result<(), SerializationError> {
        Ok(())
    }
}
impl CanonicalSerialize for SymBig {
    fn serialize_with_mode<W: ark_std::io::Write>(
        &self,
        w: W,
        c: Compress,
    ) -> Result<(), SerializationError> {
        self.leak("SymBig serialization");
        self.b.serialize_with_mode(w, c)
    }
    fn serialized_size(&self, c: Compress) -> usize {
        self.b.serialized_size(c)
    }
}
impl CanonicalDeserialize for SymBig {
    fn deserialize_with_mode<R: ark_std::io::Read>(
        r: R,
        c: Compress,
        v: Validate,
    ) -> Result<Self, SerializationError> {
        B::deserialize_with_mode(r, c, v).map(SymBig::conc)
    }
}
macro_rules! bitop {
    ($tr:ident, $m:ident, $tra:ident, $ma:ident) => {
        impl $tra<SymBig> for SymBig {
            fn $ma(&mut self, o: SymBig) {
                self.leak("SymBig bit operation");
                self.t = 0;
                self.b.$ma(o.b)
            }
        }
        impl<'a> $tra<&'a SymBig> for SymBig {
            fn $ma(&mut self, o: &'a SymBig) {
                self.leak("SymBig bit operation");
                self.t = 0;
                self.b.$ma(o.b)
            }
        }
        impl $tr<SymBig> for SymBig {
            type Output = SymBig;
            fn $m(self, o: SymBig) -> SymBig {
                self.leak("SymBig bit operation");
                o.leak("SymBig bit operation");
                SymBig::conc(self.b.$m(o.b))
            }
        }
        impl<'a> $tr<&'a SymBig> for SymBig {
            type Output = SymBig;
            fn $m(self, o: &'a SymBig) -> SymBig {
                self.leak("SymBig bit operation");
                o.leak("SymBig bit operation");
                SymBig::conc(self.b.$m(o.b))
            }
        }
    };
}
bitop!(BitXor, bitxor, BitXorAssign, bitxor_assign);
bitop!(BitAnd, bitand, BitAndAssign, bitand_assign);
bitop!(BitOr, bitor, BitOrAssign, bitor_assign);
impl Shr<u32> for SymBig {
    type Output = SymBig;
    fn shr(self, r: u32) -> SymBig {
        self.leak("SymBig shift");
        SymBig::conc(self.b >> r)
    }
}
impl ShrAssign<u32> for SymBig {
    fn shr_assign(&mut self, r: u32) {
        self.t = 0;
        self.b >>= r
    }
}
impl Shl<u32> for SymBig {
    type Output = SymBig;
    fn shl(self, r: u32) -> SymBig {
        self.leak("SymBig shift");
        SymBig::conc(self.b << r)
    }
}
impl ShlAssign<u32> for SymBig {
    fn shl_assign(&mut self, r: u32) {
        self.t = 0;
        self.b <<= r
    }
}
impl BigInteger for SymBig {
    const NUM_LIMBS: usize = 4;
    fn add_with_carry(&mut self, o: &Self) -> bool {
        self.leak("SymBig bit operation");
        self.t = 0;
        self.b.add_with_carry(&o.b)
    }
    fn sub_with_borrow(&mut self, o: &Self) -> bool {
        self.leak("SymBig bit operation");
        self.t = 0;
        self.b.sub_with_borrow(&o.b)
    }
    fn mul2(&mut self) -> bool {
        self.leak("SymBig bit operation");
        self.t = 0;
        self.b.mul2()
    }
    #[allow(deprecated)]
    fn muln(&mut self, n: u32) {
        self.leak("SymBig bit operation");
        self.t = 0;
        self.b.muln(n)
    }
    fn mul_low(&self, o: &Self) -> Self {
        SymBig::conc(self.b.mul_low(&o.b))
    }
    fn mul_high(&self, o: &Self) -> Self {
        SymBig::conc(self.b.mul_high(&o.b))
    }
    fn mul(&self, o: &Self) -> (Self, Self) {
        let (a, b) = self.b.mul(&o.b);
        (SymBig::conc(a), SymBig::conc(b))
    }
    fn div2(&mut self) {
        self.leak("SymBig bit operation");
        self.t = 0;
        self.b.div2()
    }
    #[allow(deprecated)]
    fn divn(&mut self, n: u32) {
        self.leak("SymBig bit operation");
        self.t = 0;
        self.b.divn(n)
    }
    fn is_odd(&self) -> bool {
        self.leak("SymBig::is_odd");
        self.b.is_odd()
    }
    fn is_even(&self) -> bool {
        self.leak("SymBig::is_even");
        self.b.is_even()
    }
    fn is_zero(&self) -> bool {
        let r = self.b.is_zero();
        if self.t != 0 {
            super::term::ARENA.with(|a| {
                let mut a = a.borrow_mut();
                let z = a.mk(super::term::Node::Const([0; 4]));
                a.record(super::term::canon_eq(self.t, z), r);
            });
        }
        r
    }
    fn num_bits(&self) -> u32 {
        self.leak("SymBig::num_bits");
        self.b.num_bits()
    }
    fn get_bit(&self, i: usize) -> bool {
        self.leak("SymBig::get_bit");
        self.b.get_bit(i)
    }
    fn from_bits_be(bits: &[bool]) -> Self {
        SymBig::conc(B::from_bits_be(bits))
    }
    fn from_bits_le(bits: &[bool]) -> Self {
        SymBig::conc(B::from_bits_le(bits))
    }
    fn to_bytes_be(&self) -> Vec<u8> {
        self.leak("SymBig::to_bytes_be");
        self.b.to_bytes_be()
    }
    fn to_bytes_le(&self) -> Vec<u8> {
        self.leak("SymBig::to_bytes_le");
        self.b.to_bytes_le()
    }
}
