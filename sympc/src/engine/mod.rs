//! SymPC engine: shadow algebra + dynamic symbolic execution + SMT back end.
pub mod explore;
pub mod grp;
pub mod ro;
pub mod sbig;
pub mod sf;
pub mod smt;
pub mod solver;
pub mod sponge;
pub mod term;
