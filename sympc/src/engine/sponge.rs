//! Random-oracle sponge. The state is the list of absorbed byte strings (with the symbolic terms that
//! were serialized into them); a squeezed field element is the random oracle applied to
//! (sponge id, absorbed skeleton, squeeze counter) with the absorbed terms as arguments (see `ro.rs`).
//! Squeezed *bytes* (Ligero/Brakedown column indices) are a concrete tape: a function of the seed,
//! the sponge id, the concrete skeleton and the counter, but not of symbolic values — the claim made
//! with them is "for every transcript, for this index vector", and several tapes are explored.
use super::ro;
use super::sf::{Next, LAST_TID, NEXT_SYM};
use super::term::Tid;
use ark_bls12_381::Fr;
use ark_crypto_primitives::sponge::{Absorb, CryptographicSponge, FieldElementSize};
use ark_ff::{BigInteger, PrimeField};
use blake2::Blake2s256;
use digest::Digest;

thread_local! {
    /// seed of the concrete byte tape
    pub static TAPE_SEED: std::cell::Cell<u64> = std::cell::Cell::new(0);
}

#[derive(Clone, Default)]
pub struct RoSponge {
    pub skel: Vec<u8>,
    pub args: Vec<(Tid, Fr)>,
    pub squeezes: u64,
    pub absorbs: u64,
    pub id: u64,
}

impl RoSponge {
    /// log of everything that determines future outputs (used by C11 to compare prover/verifier states)
    pub fn state(&self) -> (Vec<u8>, Vec<(Tid, Fr)>, u64) {
        (self.skel.clone(), self.args.clone(), self.squeezes)
    }
}

impl CryptographicSponge for RoSponge {
    type Config = u64;
    fn new(p: &u64) -> Self {
        RoSponge { skel: vec![], args: vec![], squeezes: 0, absorbs: 0, id: *p }
    }
    fn absorb(&mut self, input: &impl Absorb) {
        let b = input.to_sponge_bytes_as_vec();
        let (skel, args) = ro::claim(&b);
        self.absorbs += 1;
        // the squeeze counter at the time of the absorb is part of the state
        self.skel.extend_from_slice(&(skel.len() as u64).to_le_bytes());
        self.skel.extend_from_slice(&self.squeezes.to_le_bytes());
        self.skel.extend_from_slice(&skel);
        self.args.extend(args);
    }
    fn squeeze_bytes(&mut self, n: usize) -> Vec<u8> {
        self.squeezes += 1;
        let mut out = Vec::with_capacity(n);
        let mut ctr = 0u64;
        while out.len() < n {
            let mut h = Blake2s256::new();
            Digest::update(&mut h, TAPE_SEED.with(|c| c.get()).to_le_bytes());
            Digest::update(&mut h, self.id.to_le_bytes());
            Digest::update(&mut h, self.squeezes.to_le_bytes());
            Digest::update(&mut h, ctr.to_le_bytes());
            Digest::update(&mut h, &self.skel);
            out.extend_from_slice(&h.finalize());
            ctr += 1;
        }
        out.truncate(n);
        out
    }
    fn squeeze_bits(&mut self, n: usize) -> Vec<bool> {
        self.squeeze_bytes((n + 7) / 8)
            .iter()
            .flat_map(|b| (0..8).map(move |i| (b >> i) & 1 == 1))
            .take(n)
            .collect()
    }
    fn squeeze_field_elements_with_sizes<F: PrimeField>(&mut self, sizes: &[FieldElementSize]) -> Vec<F> {
        sizes
            .iter()
            .map(|s| {
                let nbits = match s {
                    FieldElementSize::Truncated(n) => *n,
                    FieldElementSize::Full => (F::MODULUS_BIT_SIZE - 1) as usize,
                };
                self.squeezes += 1;
                let mut key = self.id.to_le_bytes().to_vec();
                key.extend_from_slice(&self.squeezes.to_le_bytes());
                key.extend_from_slice(&(nbits as u64).to_le_bytes());
                key.extend_from_slice(&self.skel);
                let out = ro::ro_query(
                    ro::FAM_SPONGE,
                    key,
                    self.args.clone(),
                    nbits as u32,
                    &format!("ch{}_{}", self.id, self.squeezes),
                    None,
                )
                .unwrap();
                // hand the value (and its term) to F through from_bigint
                let big = out.v.into_bigint();
                let bits: Vec<bool> = (0..nbits).map(|i| big.get_bit(i)).collect();
                NEXT_SYM.with(|n| *n.borrow_mut() = Some(Next::Existing(out.t)));
                let r = F::from_bigint(F::BigInt::from_bits_le(&bits)).unwrap();
                NEXT_SYM.with(|n| *n.borrow_mut() = None);
                let _ = LAST_TID.with(|c| c.get());
                r
            })
            .collect()
    }
}
