//! Term arena + branch log (thread-local).
//!
//! A term is a node of a hash-consed DAG over the BLS12-381 scalar field. `Tid` 0 is reserved and
//! means "concrete" (no term). The path is the sequence of value-dependent decisions the executed
//! code took, each one an atomic condition over terms together with its concrete outcome.
use ark_bls12_381::Fr;
use std::cell::RefCell;
use std::collections::HashMap;

pub type Tid = u32;

#[derive(Clone, Copy, PartialEq, Eq, Hash, Debug)]
pub enum Node {
    Var(u32),
    Const([u64; 4]),
    Add(Tid, Tid),
    Sub(Tid, Tid),
    Mul(Tid, Tid),
    Neg(Tid),
    Inv(Tid),
}

#[derive(Clone, Copy, Debug, PartialEq, Eq, Hash, PartialOrd, Ord)]
pub enum Cond {
    Eq(Tid, Tid),
    Lt(Tid, Tid),
}

/// Why a branch is in the path.
#[derive(Clone, Copy, Debug, PartialEq, Eq, Hash)]
pub enum Kind {
    /// a decision taken by the code under test (or by the driver's assertion); explored both ways
    Branch,
    /// concretisation: a symbolic value flowed where the engine cannot follow; never flipped, counted
    Pin,
    /// a driver-side `assume`: never flipped
    Assume,
    /// random-oracle argument (dis)equality: a real branch, but explored with low priority
    RoArg,
}

#[derive(Clone, Copy, Debug)]
pub struct Branch {
    pub cond: Cond,
    pub taken: bool,
    pub kind: Kind,
}

/// One random-oracle entry: outputs of the same `class` are equal only if all arguments are equal
/// (collision resistance, given to the solver as an axiom); outputs of different classes differ.
#[derive(Clone, Debug)]
pub struct RoEntry {
    pub family: u8,
    pub class: u64,
    pub out: Tid,
    pub args: Vec<Tid>,
}

#[derive(Default)]
pub struct Arena {
    pub nodes: Vec<Node>,
    pub index: HashMap<Node, Tid>,
    pub path: Vec<Branch>,
    pub seen: HashMap<Cond, bool>,
    pub var_vals: Vec<Fr>,
    pub var_names: Vec<String>,
    pub var_bits: Vec<u32>,
    pub var_nonzero: Vec<bool>,
    /// 0 = driver input, 1 = random-oracle output, 2 = RNG draw
    pub var_kind: Vec<u8>,
    pub ro_entries: Vec<RoEntry>,
    pub pins: usize,
    pub pin_notes: Vec<String>,
    pub notes: Vec<String>,
}

thread_local! { pub static ARENA: RefCell<Arena> = RefCell::new(Arena::new()); }

impl Arena {
    pub fn new() -> Self {
        let mut a = Arena::default();
        a.nodes.push(Node::Const([0; 4])); // tid 0 is reserved = "concrete"
        a
    }
    pub fn mk(&mut self, n: Node) -> Tid {
        if let Some(&t) = self.index.get(&n) {
            return t;
        }
        let t = self.nodes.len() as Tid;
        self.nodes.push(n);
        self.index.insert(n, t);
        t
    }
    pub fn is_const(&self, t: Tid) -> bool {
        matches!(self.nodes[t as usize], Node::Const(_))
    }
    pub fn record_kind(&mut self, cond: Cond, taken: bool, kind: Kind) {
        // conditions between two constants carry no information
        let (a, b) = match cond {
            Cond::Eq(a, b) | Cond::Lt(a, b) => (a, b),
        };
        if self.is_const(a) && self.is_const(b) {
            return;
        }
        if let Some(&prev) = self.seen.get(&cond) {
            if prev != taken {
                self.notes.push(format!("inconsistent outcome for {:?}", cond));
            }
            return;
        }
        self.seen.insert(cond, taken);
        self.path.push(Branch { cond, taken, kind });
    }
    pub fn record(&mut self, cond: Cond, taken: bool) {
        self.record_kind(cond, taken, Kind::Branch)
    }
}

pub fn reset() {
    ARENA.with(|a| *a.borrow_mut() = Arena::new());
}

pub fn canon_eq(a: Tid, b: Tid) -> Cond {
    if a <= b {
        Cond::Eq(a, b)
    } else {
        Cond::Eq(b, a)
    }
}

/// Concretise term `t` (whose concrete value is `v`): adds the path constraint `t == v`.
pub fn pin(t: Tid, v: Fr, why: &str) {
    use ark_ff::PrimeField;
    if t == 0 {
        return;
    }
    ARENA.with(|a| {
        let mut a = a.borrow_mut();
        if a.is_const(t) {
            return;
        }
        let c = a.mk(Node::Const(v.into_bigint().0));
        let cond = canon_eq(t, c);
        if !a.seen.contains_key(&cond) {
            a.pins += 1;
            if a.pin_notes.len() < 8 {
                a.pin_notes.push(why.to_string());
            }
        }
        a.record_kind(cond, true, Kind::Pin);
    });
}
