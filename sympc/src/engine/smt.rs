//! SMT-LIB2 emission: integers modulo r (BLS12-381 scalar field), no intermediate reduction,
//! fractions (num, den) for inverses, equality elimination (tier E), exact non-linear DAG (tier X),
//! linear abstraction + zero-product lemmas (tier A), concretisation of all but one variable (tier C),
//! and the random-oracle collision-resistance axioms.
use super::term::{Arena, Cond, Node, Tid};
use ark_bls12_381::Fr;
use ark_ff::{Field, PrimeField};
use num_bigint::BigUint;
use std::collections::{BTreeSet, HashMap, HashSet};

pub const P_DEC: &str = "52435875175126190479447740508185965837690552500527637822603658699938581184513";

fn limbs_dec(l: &[u64; 4]) -> String {
    let mut bytes = vec![];
    for x in l {
        bytes.extend_from_slice(&x.to_le_bytes());
    }
    BigUint::from_bytes_le(&bytes).to_string()
}
pub fn fr_dec(v: &Fr) -> String {
    limbs_dec(&v.into_bigint().0)
}

pub struct Emit<'a> {
    ar: &'a Arena,
    pub out: String,
    pub done: HashSet<Tid>,
    has_den: HashSet<Tid>,
    pub vars: BTreeSet<u32>,
    abstract_mul: bool,
    lemmas: String,
    /// the abstraction met a fraction: the query must not be used
    pub unsupported: bool,
}

impl<'a> Emit<'a> {
    pub fn new(ar: &'a Arena, abstract_mul: bool) -> Self {
        Emit { ar, out: String::new(), done: HashSet::new(), has_den: HashSet::new(), vars: BTreeSet::new(), abstract_mul, lemmas: String::new(), unsupported: false }
    }
    fn is_const(&self, t: Tid) -> bool {
        matches!(self.ar.nodes[t as usize], Node::Const(_))
    }
    pub fn num(&self, t: Tid) -> String {
        match self.ar.nodes[t as usize] {
            Node::Var(i) => format!("x{}", i),
            Node::Const(l) => limbs_dec(&l),
            _ => format!("n{}", t),
        }
    }
    fn den(&self, t: Tid) -> Option<String> {
        if self.has_den.contains(&t) {
            Some(format!("d{}", t))
        } else {
            None
        }
    }
    fn mulo(a: Option<String>, b: Option<String>) -> Option<String> {
        match (a, b) {
            (None, x) | (x, None) => x,
            (Some(a), Some(b)) => Some(format!("(* {} {})", a, b)),
        }
    }
    fn times(x: String, d: &Option<String>) -> String {
        match d {
            None => x,
            Some(d) => format!("(* {} {})", x, d),
        }
    }
    pub fn visit(&mut self, t: Tid) {
        if self.done.contains(&t) {
            return;
        }
        let mut stack = vec![(t, false)];
        while let Some((u, expanded)) = stack.pop() {
            if self.done.contains(&u) {
                continue;
            }
            let n = self.ar.nodes[u as usize];
            let kids: Vec<Tid> = match n {
                Node::Var(_) | Node::Const(_) => vec![],
                Node::Add(a, b) | Node::Sub(a, b) | Node::Mul(a, b) => vec![a, b],
                Node::Neg(a) | Node::Inv(a) => vec![a],
            };
            if !expanded {
                stack.push((u, true));
                for k in kids {
                    if !self.done.contains(&k) {
                        stack.push((k, false));
                    }
                }
                continue;
            }
            match n {
                Node::Var(i) => {
                    self.vars.insert(i);
                }
                Node::Const(_) => {}
                Node::Add(a, b) | Node::Sub(a, b) => {
                    let op = if matches!(n, Node::Add(..)) { "+" } else { "-" };
                    let (da, db) = (self.den(a), self.den(b));
                    let e = format!("({} {} {})", op, Self::times(self.num(a), &db), Self::times(self.num(b), &da));
                    self.out.push_str(&format!("(define-fun n{} () Int {})\n", u, e));
                    if let Some(d) = Self::mulo(da, db) {
                        self.out.push_str(&format!("(define-fun d{} () Int {})\n", u, d));
                        self.has_den.insert(u);
                    }
                }
                Node::Mul(a, b) if self.abstract_mul && !self.is_const(a) && !self.is_const(b) => {
                    self.out.push_str(&format!("(declare-const n{} Int)\n", u));
                    self.lemmas.push_str(&format!(
                        "(assert (= (= (mod n{u} {p}) 0) (or (= (mod {a} {p}) 0) (= (mod {b} {p}) 0))))\n",
                        u = u,
                        p = P_DEC,
                        a = self.num(a),
                        b = self.num(b)
                    ));
                    if self.den(a).is_some() || self.den(b).is_some() {
                        // abstraction of fractions is not supported: the caller must drop this tier
                        self.has_den.insert(u);
                        self.out.push_str(&format!("(define-fun d{} () Int 1)\n", u));
                        self.unsupported = true;
                    }
                }
                Node::Mul(a, b) => {
                    self.out.push_str(&format!("(define-fun n{} () Int (* {} {}))\n", u, self.num(a), self.num(b)));
                    if let Some(d) = Self::mulo(self.den(a), self.den(b)) {
                        self.out.push_str(&format!("(define-fun d{} () Int {})\n", u, d));
                        self.has_den.insert(u);
                    }
                }
                Node::Neg(a) => {
                    self.out.push_str(&format!("(define-fun n{} () Int (- {}))\n", u, self.num(a)));
                    if let Some(d) = self.den(a) {
                        self.out.push_str(&format!("(define-fun d{} () Int {})\n", u, d));
                        self.has_den.insert(u);
                    }
                }
                Node::Inv(a) => {
                    let nn = self.den(a).unwrap_or("1".into());
                    self.out.push_str(&format!("(define-fun n{} () Int {})\n", u, nn));
                    self.out.push_str(&format!("(define-fun d{} () Int {})\n", u, self.num(a)));
                    self.has_den.insert(u);
                }
            }
            self.done.insert(u);
        }
    }
    pub fn eq_atom(&mut self, a: Tid, b: Tid) -> String {
        self.visit(a);
        self.visit(b);
        let (da, db) = (self.den(a), self.den(b));
        let l = Self::times(self.num(a), &db);
        let r = Self::times(self.num(b), &da);
        format!("(= (mod (- {} {}) {}) 0)", l, r, P_DEC)
    }
    pub fn atom(&mut self, c: Cond) -> Option<String> {
        match c {
            Cond::Eq(a, b) => Some(self.eq_atom(a, b)),
            Cond::Lt(a, b) => {
                self.visit(a);
                self.visit(b);
                if self.den(a).is_some() || self.den(b).is_some() {
                    return None;
                }
                Some(format!("(< (mod {} {p}) (mod {} {p}))", self.num(a), self.num(b), p = P_DEC))
            }
        }
    }
    pub fn any_den(&self) -> bool {
        !self.has_den.is_empty()
    }
}

/// variable support of a term (memoised)
pub fn supp(ar: &Arena, t: Tid, memo: &mut HashMap<Tid, BTreeSet<u32>>) -> BTreeSet<u32> {
    if let Some(s) = memo.get(&t) {
        return s.clone();
    }
    // iterative to avoid deep recursion
    let mut stack = vec![(t, false)];
    while let Some((u, expanded)) = stack.pop() {
        if memo.contains_key(&u) {
            continue;
        }
        let kids: Vec<Tid> = match ar.nodes[u as usize] {
            Node::Var(_) | Node::Const(_) => vec![],
            Node::Add(a, b) | Node::Sub(a, b) | Node::Mul(a, b) => vec![a, b],
            Node::Neg(a) | Node::Inv(a) => vec![a],
        };
        if !expanded {
            stack.push((u, true));
            for k in kids {
                if !memo.contains_key(&k) {
                    stack.push((k, false));
                }
            }
            continue;
        }
        let mut s = BTreeSet::new();
        if let Node::Var(i) = ar.nodes[u as usize] {
            s.insert(i);
        }
        for k in kids {
            s.extend(memo[&k].iter().copied());
        }
        memo.insert(u, s);
    }
    memo[&t].clone()
}

fn has_inv(ar: &Arena, t: Tid, memo: &mut HashMap<Tid, bool>) -> bool {
    if let Some(b) = memo.get(&t) {
        return *b;
    }
    let mut stack = vec![(t, false)];
    while let Some((u, expanded)) = stack.pop() {
        if memo.contains_key(&u) {
            continue;
        }
        let kids: Vec<Tid> = match ar.nodes[u as usize] {
            Node::Var(_) | Node::Const(_) => vec![],
            Node::Add(a, b) | Node::Sub(a, b) | Node::Mul(a, b) => vec![a, b],
            Node::Neg(a) | Node::Inv(a) => vec![a],
        };
        if !expanded {
            stack.push((u, true));
            for k in kids {
                if !memo.contains_key(&k) {
                    stack.push((k, false));
                }
            }
            continue;
        }
        let v = matches!(ar.nodes[u as usize], Node::Inv(_)) || kids.iter().any(|k| memo[k]);
        memo.insert(u, v);
    }
    memo[&t]
}

/// flatten the additive spine of `t` into signed summands
fn spine(ar: &Arena, t: Tid, sign: bool, out: &mut Vec<(bool, Tid)>) {
    let mut stack = vec![(t, sign)];
    while let Some((u, sg)) = stack.pop() {
        match ar.nodes[u as usize] {
            Node::Add(a, b) => {
                stack.push((b, sg));
                stack.push((a, sg));
            }
            Node::Sub(a, b) => {
                stack.push((b, !sg));
                stack.push((a, sg));
            }
            Node::Neg(a) => stack.push((a, !sg)),
            _ => out.push((sg, u)),
        }
    }
}

/// A definition `var := scale * (sum of signed summands)` derived from a positive path equality.
#[derive(Clone, Debug)]
pub struct Subst {
    pub var: u32,
    pub scale: Fr,
    pub body: Vec<(bool, Tid)>,
}

/// Tier E: from the positive equalities of `conds`, derive definitions of unconstrained variables
/// (Gaussian elimination over F_r; equivalence preserving).
pub fn substitutions(ar: &Arena, conds: &[(Cond, bool)]) -> Vec<Subst> {
    let mut memo = HashMap::new();
    let mut invmemo = HashMap::new();
    let mut subs: Vec<Subst> = vec![];
    let mut used: BTreeSet<u32> = BTreeSet::new();
    for (c, pol) in conds {
        let (a, b) = match (c, pol) {
            (Cond::Eq(a, b), true) => (*a, *b),
            _ => continue,
        };
        if has_inv(ar, a, &mut invmemo) || has_inv(ar, b, &mut invmemo) {
            continue;
        }
        let mut sp = vec![];
        spine(ar, a, true, &mut sp);
        spine(ar, b, false, &mut sp);
        if sp.len() > 4000 {
            continue;
        }
        let mut pick = None;
        for (k, (sg, t)) in sp.iter().enumerate() {
            // summand = Var v  |  Const c * Var v  |  Var v * Const c
            let (v, coef) = match ar.nodes[*t as usize] {
                Node::Var(v) => (v, Fr::from(1u8)),
                Node::Mul(x, y) => match (ar.nodes[x as usize], ar.nodes[y as usize]) {
                    (Node::Const(c), Node::Var(v)) | (Node::Var(v), Node::Const(c)) => (v, Fr::from(ark_ff::BigInt(c))),
                    _ => continue,
                },
                _ => continue,
            };
            if coef == Fr::from(0u8) {
                continue;
            }
            if used.contains(&v) || ar.var_nonzero[v as usize] || ar.var_bits[v as usize] != 0 {
                continue;
            }
            let mut ok = true;
            for (j, (_, u)) in sp.iter().enumerate() {
                if j != k && supp(ar, *u, &mut memo).contains(&v) {
                    ok = false;
                    break;
                }
            }
            if ok {
                pick = Some((k, v, *sg, coef));
                break;
            }
        }
        if let Some((k, v, sg, coef)) = pick {
            // sg*coef*v + rest == 0  =>  v = -(sg*coef)^-1 * rest
            let mut body_vars = BTreeSet::new();
            let rest: Vec<(bool, Tid)> = sp.iter().enumerate().filter(|(j, _)| *j != k).map(|(_, x)| *x).collect();
            for (_, t) in &rest {
                body_vars.extend(supp(ar, *t, &mut memo));
            }
            if body_vars.iter().any(|w| subs.iter().any(|s| s.var == *w)) {
                continue;
            }
            let mut scale = coef.inverse().unwrap();
            if sg {
                scale = -scale;
            }
            used.insert(v);
            used.extend(body_vars);
            subs.push(Subst { var: v, scale, body: rest });
        }
    }
    subs
}

pub fn eval(ar: &Arena, t: Tid, asg: &[Fr], memo: &mut HashMap<Tid, Fr>) -> Fr {
    if let Some(v) = memo.get(&t) {
        return *v;
    }
    let mut stack = vec![(t, false)];
    while let Some((u, expanded)) = stack.pop() {
        if memo.contains_key(&u) {
            continue;
        }
        let n = ar.nodes[u as usize];
        let kids: Vec<Tid> = match n {
            Node::Var(_) | Node::Const(_) => vec![],
            Node::Add(a, b) | Node::Sub(a, b) | Node::Mul(a, b) => vec![a, b],
            Node::Neg(a) | Node::Inv(a) => vec![a],
        };
        if !expanded {
            stack.push((u, true));
            for k in kids {
                if !memo.contains_key(&k) {
                    stack.push((k, false));
                }
            }
            continue;
        }
        let v = match n {
            Node::Var(i) => asg[i as usize],
            Node::Const(l) => Fr::from(ark_ff::BigInt(l)),
            Node::Add(a, b) => memo[&a] + memo[&b],
            Node::Sub(a, b) => memo[&a] - memo[&b],
            Node::Mul(a, b) => memo[&a] * memo[&b],
            Node::Neg(a) => -memo[&a],
            Node::Inv(a) => memo[&a].inverse().unwrap_or(Fr::from(0u8)),
        };
        memo.insert(u, v);
    }
    memo[&t]
}

pub fn eval_cond(ar: &Arena, c: Cond, asg: &[Fr]) -> bool {
    let mut memo = HashMap::new();
    match c {
        Cond::Eq(a, b) => eval(ar, a, asg, &mut memo) == eval(ar, b, asg, &mut memo),
        Cond::Lt(a, b) => eval(ar, a, asg, &mut memo) < eval(ar, b, asg, &mut memo),
    }
}

pub fn support(ar: &Arena, c: Cond) -> Vec<u32> {
    let mut memo = HashMap::new();
    let (a, b) = match c {
        Cond::Eq(a, b) | Cond::Lt(a, b) => (a, b),
    };
    let mut s = supp(ar, a, &mut memo);
    s.extend(supp(ar, b, &mut memo));
    s.into_iter().collect()
}

pub struct Query {
    pub text: String,
    /// variables whose values must be read from the model
    pub vars: Vec<u32>,
    pub subs: Vec<Subst>,
    /// tier N eliminations: variable := polynomial over the remaining variables
    pub psubs: Vec<(u32, Poly)>,
    /// tier N: the last condition, positively asserted, is a non-trivial polynomial relation with
    /// constant coefficients among random-oracle outputs only
    pub oracle_only: bool,
    pub axioms: usize,
}

fn ro_axioms(e: &mut Emit, ar: &Arena, relevant: &BTreeSet<u32>) -> (String, usize) {
    // entries whose output is a variable occurring in the query (or a constant compared with one)
    let ents = &ar.ro_entries;
    let mut s = String::new();
    let mut n = 0;
    let is_rel = |t: Tid| match ar.nodes[t as usize] {
        Node::Var(v) => relevant.contains(&v),
        _ => false,
    };
    for i in 0..ents.len() {
        for j in (i + 1)..ents.len() {
            let (a, b) = (&ents[i], &ents[j]);
            if a.family != b.family || a.out == b.out {
                continue;
            }
            if !(is_rel(a.out) || is_rel(b.out)) {
                continue;
            }
            if !(is_rel(a.out) && (is_rel(b.out) || e.is_const(b.out)) || is_rel(b.out) && e.is_const(a.out)) {
                continue;
            }
            e.visit(a.out);
            e.visit(b.out);
            let outs_eq = format!("(= {} {})", e.num(a.out), e.num(b.out));
            if a.class != b.class || a.args.len() != b.args.len() {
                s.push_str(&format!("(assert (not {}))\n", outs_eq));
            } else {
                let mut conj = String::from("(and true");
                for (x, y) in a.args.iter().zip(b.args.iter()) {
                    if x != y {
                        conj.push(' ');
                        conj.push_str(&e.eq_atom(*x, *y));
                    }
                }
                conj.push(')');
                s.push_str(&format!("(assert (=> {} {}))\n", outs_eq, conj));
            }
            n += 1;
        }
    }
    (s, n)
}

/// Build the query for the conjunction `conds`.
/// `free`: Some(v) = tier C (every variable except `v` fixed to its current value).
/// `abstract_mul`: tier A.
pub fn emit_query(ar: &Arena, conds: &[(Cond, bool)], free: Option<u32>, abstract_mul: bool, use_subst: bool) -> Option<Query> {
    let mut e = Emit::new(ar, abstract_mul);
    let mut asserts = String::new();
    for (c, pol) in conds {
        let a = e.atom(*c)?;
        if *pol {
            asserts.push_str(&format!("(assert {})\n", a));
        } else {
            asserts.push_str(&format!("(assert (not {}))\n", a));
        }
    }
    if abstract_mul && e.any_den() {
        return None;
    }
    let subs = if free.is_none() && use_subst && !abstract_mul { substitutions(ar, conds) } else { vec![] };
    for s in &subs {
        for (_, t) in &s.body {
            e.visit(*t);
        }
    }
    let relevant: BTreeSet<u32> = e.vars.clone();
    let (axioms, n_ax) = ro_axioms(&mut e, ar, &relevant);
    if abstract_mul && (e.any_den() || e.unsupported) {
        // fractions appeared while emitting the oracle axioms: tier A does not apply
        return None;
    }
    let vars_all: Vec<u32> = e.vars.iter().copied().collect();
    let subst_vars: BTreeSet<u32> = subs.iter().map(|s| s.var).collect();
    let mut s = String::new();
    for v in &vars_all {
        if subst_vars.contains(v) {
            continue;
        }
        if free.is_some() && free != Some(*v) {
            s.push_str(&format!("(define-fun x{} () Int {})\n", v, fr_dec(&ar.var_vals[*v as usize])));
            continue;
        }
        let bits = ar.var_bits[*v as usize];
        let ub = if bits == 0 { P_DEC.to_string() } else { (BigUint::from(1u8) << bits as usize).to_string() };
        let lb = if ar.var_nonzero[*v as usize] { "1" } else { "0" };
        s.push_str(&format!("(declare-const x{v} Int)\n(assert (and (<= {lb} x{v}) (< x{v} {ub})))\n", v = v, ub = ub, lb = lb));
    }
    let vars: Vec<u32> = match free {
        Some(f) => vec![f],
        None => vars_all.iter().copied().filter(|v| !subst_vars.contains(v)).collect(),
    };
    if subs.is_empty() {
        s.push_str(&e.out);
    } else {
        // 1) node definitions independent of substituted variables, 2) substitutions, 3) the rest
        let mut memo = HashMap::new();
        let mut first = String::new();
        let mut second = String::new();
        for line in e.out.lines() {
            let name = line.split_whitespace().nth(1).unwrap();
            let tid: Tid = name[1..].parse().unwrap();
            let dep = supp(ar, tid, &mut memo).iter().any(|v| subst_vars.contains(v));
            if dep {
                second.push_str(line);
                second.push('\n');
            } else {
                first.push_str(line);
                first.push('\n');
            }
        }
        s.push_str(&first);
        for sb in &subs {
            let mut body = String::from("(+ 0");
            for (sg, t) in &sb.body {
                body.push(' ');
                if *sg {
                    body.push_str(&e.num(*t));
                } else {
                    body.push_str(&format!("(- {})", e.num(*t)));
                }
            }
            body.push(')');
            s.push_str(&format!("(define-fun x{} () Int (* {} {}))\n", sb.var, fr_dec(&sb.scale), body));
        }
        s.push_str(&second);
    }
    s.push_str(&e.lemmas);
    s.push_str(&asserts);
    s.push_str(&axioms);
    Some(Query { text: s, vars, subs, psubs: vec![], oracle_only: false, axioms: n_ax })
}

// ---------------------------------------------------------------------------------------------
// Tier N: normal-form atoms. Each equality is expanded to a sparse polynomial over F_r (fractions
// cleared), constants reduced, cancellations performed, made monic and stripped of common variable
// factors (x*Q = 0  <=>  x = 0 or Q = 0 in a field). This is a rewriting of the encoding; the solver
// still decides the query. Falls back to the DAG encoding when the expansion exceeds the cap.
// ---------------------------------------------------------------------------------------------
type Mono = Vec<(u32, u32)>;
#[derive(Clone, Debug)]
pub struct Poly(pub std::collections::BTreeMap<Mono, Fr>);
const POLY_CAP: usize = 6000;

impl Poly {
    fn zero() -> Poly {
        Poly(Default::default())
    }
    fn constant(c: Fr) -> Poly {
        let mut p = Poly::zero();
        if c != Fr::from(0u8) {
            p.0.insert(vec![], c);
        }
        p
    }
    fn var(v: u32) -> Poly {
        let mut p = Poly::zero();
        p.0.insert(vec![(v, 1)], Fr::from(1u8));
        p
    }
    fn add(&self, o: &Poly, neg: bool) -> Poly {
        let mut r = self.clone();
        for (m, c) in &o.0 {
            let c = if neg { -*c } else { *c };
            let e = r.0.entry(m.clone()).or_insert(Fr::from(0u8));
            *e += c;
            if *e == Fr::from(0u8) {
                r.0.remove(m);
            }
        }
        r
    }
    fn mul(&self, o: &Poly) -> Option<Poly> {
        if self.0.len().saturating_mul(o.0.len()) > 4 * POLY_CAP * 16 {
            return None;
        }
        let mut r = Poly::zero();
        for (m1, c1) in &self.0 {
            for (m2, c2) in &o.0 {
                // merge sorted monomials
                let mut m: Mono = Vec::with_capacity(m1.len() + m2.len());
                let (mut i, mut j) = (0, 0);
                while i < m1.len() || j < m2.len() {
                    if j == m2.len() || (i < m1.len() && m1[i].0 < m2[j].0) {
                        m.push(m1[i]);
                        i += 1;
                    } else if i == m1.len() || m2[j].0 < m1[i].0 {
                        m.push(m2[j]);
                        j += 1;
                    } else {
                        m.push((m1[i].0, m1[i].1 + m2[j].1));
                        i += 1;
                        j += 1;
                    }
                }
                let e = r.0.entry(m.clone()).or_insert(Fr::from(0u8));
                *e += *c1 * *c2;
                if *e == Fr::from(0u8) {
                    r.0.remove(&m);
                }
            }
            if r.0.len() > POLY_CAP {
                return None;
            }
        }
        Some(r)
    }
    fn neg(&self) -> Poly {
        Poly(self.0.iter().map(|(m, c)| (m.clone(), -*c)).collect())
    }
    fn scale(&self, k: Fr) -> Poly {
        Poly(self.0.iter().map(|(m, c)| (m.clone(), *c * k)).collect())
    }
    fn mentions(&self, v: u32) -> bool {
        self.0.keys().any(|m| m.iter().any(|(w, _)| *w == v))
    }
    /// replace variable `v` by polynomial `r`
    fn subst(&self, v: u32, r: &Poly) -> Option<Poly> {
        if !self.mentions(v) {
            return Some(self.clone());
        }
        let mut out = Poly::zero();
        let mut pows: Vec<Poly> = vec![Poly::constant(Fr::from(1u8))];
        for (m, c) in &self.0 {
            let e = m.iter().find(|(w, _)| *w == v).map(|x| x.1).unwrap_or(0) as usize;
            let rest: Mono = m.iter().filter(|(w, _)| *w != v).copied().collect();
            let mut base = Poly::zero();
            base.0.insert(rest, *c);
            if e == 0 {
                out = out.add(&base, false);
            } else {
                while pows.len() <= e {
                    let nxt = pows.last().unwrap().mul(r)?;
                    pows.push(nxt);
                }
                out = out.add(&base.mul(&pows[e])?, false);
            }
            if out.0.len() > POLY_CAP {
                return None;
            }
        }
        Some(out)
    }
    pub fn eval(&self, asg: &[Fr]) -> Fr {
        let mut acc = Fr::from(0u8);
        for (m, c) in &self.0 {
            let mut t = *c;
            for (v, e) in m {
                for _ in 0..*e {
                    t *= asg[*v as usize];
                }
            }
            acc += t;
        }
        acc
    }
    fn smt(&self) -> String {
        if self.0.is_empty() {
            return "0".to_string();
        }
        let terms: Vec<String> = self.0.iter().map(|(m, c)| if m.is_empty() { fr_dec(c) } else { format!("(* {} {})", fr_dec(c), mono_smt(m)) }).collect();
        if terms.len() == 1 { terms[0].clone() } else { format!("(+ {})", terms.join(" ")) }
    }
}

pub struct Normalizer<'a> {
    ar: &'a Arena,
    memo: HashMap<Tid, Option<(Poly, Poly)>>,
}
impl<'a> Normalizer<'a> {
    pub fn new(ar: &'a Arena) -> Self {
        Normalizer { ar, memo: HashMap::new() }
    }
    /// (numerator, denominator) of term `t`
    fn frac(&mut self, t: Tid) -> Option<(Poly, Poly)> {
        if let Some(r) = self.memo.get(&t) {
            return r.clone();
        }
        let mut stack = vec![(t, false)];
        while let Some((u, expanded)) = stack.pop() {
            if self.memo.contains_key(&u) {
                continue;
            }
            let n = self.ar.nodes[u as usize];
            let kids: Vec<Tid> = match n {
                Node::Var(_) | Node::Const(_) => vec![],
                Node::Add(a, b) | Node::Sub(a, b) | Node::Mul(a, b) => vec![a, b],
                Node::Neg(a) | Node::Inv(a) => vec![a],
            };
            if !expanded {
                stack.push((u, true));
                for k in kids {
                    if !self.memo.contains_key(&k) {
                        stack.push((k, false));
                    }
                }
                continue;
            }
            let one = Poly::constant(Fr::from(1u8));
            let get = |m: &HashMap<Tid, Option<(Poly, Poly)>>, k: Tid| m[&k].clone();
            let r: Option<(Poly, Poly)> = match n {
                Node::Var(i) => Some((Poly::var(i), one)),
                Node::Const(l) => Some((Poly::constant(Fr::from(ark_ff::BigInt(l))), one)),
                Node::Add(a, b) | Node::Sub(a, b) => (|| {
                    let (an, ad) = get(&self.memo, a)?;
                    let (bn, bd) = get(&self.memo, b)?;
                    let neg = matches!(n, Node::Sub(..));
                    let trivial = |p: &Poly| p.0.len() == 1 && p.0.get(&vec![]) == Some(&Fr::from(1u8));
                    if trivial(&ad) && trivial(&bd) {
                        Some((an.add(&bn, neg), ad))
                    } else {
                        let l = an.mul(&bd)?;
                        let r = bn.mul(&ad)?;
                        Some((l.add(&r, neg), ad.mul(&bd)?))
                    }
                })(),
                Node::Mul(a, b) => (|| {
                    let (an, ad) = get(&self.memo, a)?;
                    let (bn, bd) = get(&self.memo, b)?;
                    Some((an.mul(&bn)?, ad.mul(&bd)?))
                })(),
                Node::Neg(a) => get(&self.memo, a).map(|(n, d)| (n.neg(), d)),
                Node::Inv(a) => get(&self.memo, a).map(|(n, d)| (d, n)),
            };
            self.memo.insert(u, r);
        }
        self.memo[&t].clone()
    }
    /// numerator polynomial of `a - b`
    pub fn eq_poly(&mut self, a: Tid, b: Tid) -> Option<Poly> {
        let (an, ad) = self.frac(a)?;
        let (bn, bd) = self.frac(b)?;
        Some(an.mul(&bd)?.add(&bn.mul(&ad)?, true))
    }
    /// SMT text of `a == b` in normal form; `vars` collects the variables used
    pub fn eq_atom(&mut self, a: Tid, b: Tid, vars: &mut BTreeSet<u32>) -> Option<String> {
        let (an, ad) = self.frac(a)?;
        let (bn, bd) = self.frac(b)?;
        let p = an.mul(&bd)?.add(&bn.mul(&ad)?, true);
        Some(poly_atom(&p, vars))
    }
}

fn mono_smt(m: &Mono) -> String {
    let mut f = vec![];
    for (v, e) in m {
        for _ in 0..*e {
            f.push(format!("x{}", v));
        }
    }
    match f.len() {
        0 => "1".to_string(),
        1 => f[0].clone(),
        _ => format!("(* {})", f.join(" ")),
    }
}

fn poly_atom(p: &Poly, vars: &mut BTreeSet<u32>) -> String {
    if p.0.is_empty() {
        return "true".to_string();
    }
    if p.0.len() == 1 && p.0.contains_key(&vec![]) {
        return "false".to_string();
    }
    // common variable factors
    let mut common: Option<HashMap<u32, u32>> = None;
    for m in p.0.keys() {
        let cur: HashMap<u32, u32> = m.iter().copied().collect();
        common = Some(match common {
            None => cur,
            Some(c) => c.into_iter().filter_map(|(v, e)| cur.get(&v).map(|e2| (v, e.min(*e2)))).collect(),
        });
    }
    let common = common.unwrap_or_default();
    let mut disj: Vec<String> = vec![];
    let mut cvars: Vec<u32> = common.keys().copied().collect();
    cvars.sort();
    for v in &cvars {
        vars.insert(*v);
        disj.push(format!("(= x{} 0)", v));
    }
    // quotient by the common monomial, made monic
    let lead = *p.0.iter().next_back().unwrap().1;
    let linv = lead.inverse().unwrap();
    let mut terms: Vec<String> = vec![];
    let mut nterms = 0;
    for (m, c) in &p.0 {
        let q: Mono = m.iter().filter_map(|(v, e)| { let d = e - common.get(v).copied().unwrap_or(0); if d > 0 { Some((*v, d)) } else { None } }).collect();
        for (v, _) in &q {
            vars.insert(*v);
        }
        let c = *c * linv;
        nterms += 1;
        let cs = fr_dec(&c);
        if q.is_empty() {
            terms.push(cs);
        } else if c == Fr::from(1u8) {
            terms.push(mono_smt(&q));
        } else {
            terms.push(format!("(* {} {})", cs, mono_smt(&q)));
        }
    }
    let all_const = p.0.keys().all(|m| m.iter().all(|(v, e)| common.get(v).copied().unwrap_or(0) == *e));
    if !(nterms == 1 && all_const) {
        let sum = if terms.len() == 1 { terms[0].clone() } else { format!("(+ {})", terms.join(" ")) };
        disj.push(format!("(= (mod {} {}) 0)", sum, P_DEC));
    }
    match disj.len() {
        0 => "false".to_string(),
        1 => disj.pop().unwrap(),
        _ => format!("(or {})", disj.join(" ")),
    }
}

/// strip factors that are variables constrained to be non-zero (x*Q = 0 and x != 0  =>  Q = 0)
fn strip_nonzero(ar: &Arena, p: &Poly) -> Poly {
    if p.0.is_empty() {
        return p.clone();
    }
    let mut common: Option<HashMap<u32, u32>> = None;
    for m in p.0.keys() {
        let cur: HashMap<u32, u32> = m.iter().copied().collect();
        common = Some(match common {
            None => cur,
            Some(c) => c.into_iter().filter_map(|(v, e)| cur.get(&v).map(|e2| (v, e.min(*e2)))).collect(),
        });
    }
    let common: HashMap<u32, u32> = common.unwrap_or_default().into_iter().filter(|(v, _)| ar.var_nonzero[*v as usize]).collect();
    if common.is_empty() {
        return p.clone();
    }
    Poly(p.0.iter().map(|(m, c)| (m.iter().filter_map(|(v, e)| { let d = e - common.get(v).copied().unwrap_or(0); if d > 0 { Some((*v, d)) } else { None } }).collect(), *c)).collect())
}

/// Tier N query: every equality in normal form (order atoms and oracle axioms keep the DAG form),
/// after eliminating variables defined by positive path equalities (tier E on polynomials).
pub fn emit_query_norm(ar: &Arena, conds: &[(Cond, bool)]) -> Option<Query> {
    let mut nz = Normalizer::new(ar);
    let mut e = Emit::new(ar, false);
    let mut vars: BTreeSet<u32> = BTreeSet::new();
    let mut asserts = String::new();
    // 1. polynomials of all equalities
    let mut polys: Vec<Option<Poly>> = vec![];
    for (c, _) in conds {
        polys.push(match c {
            Cond::Eq(a, b) => Some(nz.eq_poly(*a, *b)?),
            Cond::Lt(..) => None,
        });
    }
    let frozen: BTreeSet<u32> = BTreeSet::new();
    // 2. Gaussian elimination with polynomial right-hand sides
    let mut psubs: Vec<(u32, Poly)> = vec![];
    let mut consumed: Vec<bool> = vec![false; conds.len()];
    loop {
        let mut found: Option<(usize, u32, Poly)> = None;
        'outer: for (i, (_, pol)) in conds.iter().enumerate() {
            if !*pol || consumed[i] {
                continue;
            }
            let p = match &polys[i] {
                Some(p) => strip_nonzero(ar, p),
                None => continue,
            };
            for (m, c) in &p.0 {
                if m.len() == 1 && m[0].1 == 1 {
                    let v = m[0].0;
                    if ar.var_nonzero[v as usize] || ar.var_bits[v as usize] != 0 || frozen.contains(&v) {
                        continue;
                    }
                    // v must not occur in any other monomial
                    if p.0.keys().filter(|k| *k != m).any(|k| k.iter().any(|(w, _)| *w == v)) {
                        continue;
                    }
                    let mut rest = p.clone();
                    rest.0.remove(m);
                    let r = rest.scale(-(c.inverse().unwrap()));
                    found = Some((i, v, r));
                    break 'outer;
                }
            }
        }
        let (i, v, r) = match found {
            Some(x) => x,
            None => break,
        };
        consumed[i] = true;
        for (j, pj) in polys.iter_mut().enumerate() {
            if j != i {
                if let Some(p) = pj {
                    *pj = Some(p.subst(v, &r)?);
                }
            }
        }
        for (_, pr) in psubs.iter_mut() {
            *pr = pr.subst(v, &r)?;
        }
        psubs.push((v, r));
    }
    let mut oracle_only = false;
    if let Some((Cond::Eq(..), true)) = conds.last().map(|x| (x.0, x.1)) {
        let i = conds.len() - 1;
        if !consumed[i] {
            if let Some(p) = &polys[i] {
                let p = strip_nonzero(ar, p);
                let nonconst = p.0.keys().any(|m| !m.is_empty());
                if nonconst && p.0.keys().all(|m| m.iter().all(|(v, _)| ar.var_kind[*v as usize] == 1)) {
                    oracle_only = true;
                }
            }
        }
    }
    for (i, (c, pol)) in conds.iter().enumerate() {
        if consumed[i] {
            continue;
        }
        let a = match c {
            Cond::Eq(..) => {
                let p = polys[i].as_ref().unwrap();
                let p = if *pol { strip_nonzero(ar, p) } else { p.clone() };
                poly_atom(&p, &mut vars)
            }
            Cond::Lt(..) => e.atom(*c)?,
        };
        if *pol {
            asserts.push_str(&format!("(assert {})\n", a));
        } else {
            asserts.push_str(&format!("(assert (not {}))\n", a));
        }
    }
    for (_, r) in &psubs {
        for m in r.0.keys() {
            for (v, _) in m {
                vars.insert(*v);
            }
        }
    }
    vars.extend(e.vars.iter().copied());
    // oracle axioms over the variables of the query (arguments compared in normal form too)
    let mut axioms = String::new();
    let mut n_ax = 0;
    {
        let ents = &ar.ro_entries;
        let is_rel = |t: Tid, vars: &BTreeSet<u32>| match ar.nodes[t as usize] {
            Node::Var(v) => vars.contains(&v),
            _ => false,
        };
        let is_c = |t: Tid| matches!(ar.nodes[t as usize], Node::Const(_));
        let snapshot = vars.clone();
        for i in 0..ents.len() {
            for j in (i + 1)..ents.len() {
                let (a, b) = (&ents[i], &ents[j]);
                if a.family != b.family || a.out == b.out {
                    continue;
                }
                let (ra, rb) = (is_rel(a.out, &snapshot), is_rel(b.out, &snapshot));
                if !((ra && (rb || is_c(b.out))) || (rb && is_c(a.out))) {
                    continue;
                }
                let outs_eq = nz.eq_atom(a.out, b.out, &mut vars)?;
                if a.class != b.class || a.args.len() != b.args.len() {
                    axioms.push_str(&format!("(assert (not {}))\n", outs_eq));
                } else {
                    let mut conj = String::from("(and true");
                    for (x, y) in a.args.iter().zip(b.args.iter()) {
                        if x != y {
                            conj.push(' ');
                            conj.push_str(&nz.eq_atom(*x, *y, &mut vars)?);
                        }
                    }
                    conj.push(')');
                    axioms.push_str(&format!("(assert (=> {} {}))\n", outs_eq, conj));
                }
                n_ax += 1;
            }
        }
    }
    let elim_set: BTreeSet<u32> = psubs.iter().map(|x| x.0).collect();
    let mut s = String::new();
    for v in &vars {
        if elim_set.contains(v) {
            continue;
        }
        let bits = ar.var_bits[*v as usize];
        let ub = if bits == 0 { P_DEC.to_string() } else { (BigUint::from(1u8) << bits as usize).to_string() };
        let lb = if ar.var_nonzero[*v as usize] { "1" } else { "0" };
        s.push_str(&format!("(declare-const x{v} Int)\n(assert (and (<= {lb} x{v}) (< x{v} {ub})))\n", v = v, ub = ub, lb = lb));
    }
    for (v, r) in &psubs {
        s.push_str(&format!("(define-fun x{} () Int {})\n", v, r.smt()));
    }
    s.push_str(&e.out);
    s.push_str(&asserts);
    s.push_str(&axioms);
    let elim: BTreeSet<u32> = psubs.iter().map(|x| x.0).collect();
    Some(Query { text: s, vars: vars.into_iter().filter(|v| !elim.contains(v)).collect(), subs: vec![], psubs, oracle_only, axioms: n_ax })
}
