//! SMT-LIB2 emission: integers modulo r (BLS12-381 scalar field), no intermediate reduction,
//! fractions (num, den) for inverses, equality elimination (tier E), exact non-linear DAG (tier X),
//! linear abstraction + zero-product lemmas (tier A), concretisation of all but one variable (tier C),
//! and the random-oracle collision-resistance axioms.
use super::term::{Arena, Cond, Node, Tid};
use ark_bls12_381::Fr;
use ark_ff::{Field, PrimeField};
use num_bigint::BigUint;
use std::collections::{BTreeSet, HashMap, HashSet};

pub const P_DEC: &str = "52435875175126190479447740508185965837690552500527637822603658699938581184513";

fn limbs_dec(l: &[u64; 4]) -> String {
    let mut bytes = vec![];
    for x in l {
        bytes.extend_from_slice(&x.to_le_bytes());
    }
    BigUint::from_bytes_le(&bytes).to_string()
}
pub fn fr_dec(v: &Fr) -> String {
    limbs_dec(&v.into_bigint().0)
}

pub struct Emit<'a> {
    ar: &'a Arena,
    pub out: String,
    pub done: HashSet<Tid>,
    has_den: HashSet<Tid>,
    pub vars: BTreeSet<u32>,
    abstract_mul: bool,
    lemmas: String,
}

impl<'a> Emit<'a> {
    pub fn new(ar: &'a Arena, abstract_mul: bool) -> Self {
        Emit { ar, out: String::new(), done: HashSet::new(), has_den: HashSet::new(), vars: BTreeSet::new(), abstract_mul, lemmas: String::new() }
    }
    fn is_const(&self, t: Tid) -> bool {
        matches!(self.ar.nodes[t as usize], Node::Const(_))
    }
    pub fn num(&self, t: Tid) -> String {
        match self.ar.nodes[t as usize] {
            Node::Var(i) => format!("x{}", i),
            Node::Const(l) => limbs_dec(&l),
            _ => format!("n{}", t),
        }
    }
    fn den(&self, t: Tid) -> Option<String> {
        if self.has_den.contains(&t) {
            Some(format!("d{}", t))
        } else {
            None
        }
    }
    fn mulo(a: Option<String>, b: Option<String>) -> Option<String> {
        match (a, b) {
            (None, x) | (x, None) => x,
            (Some(a), Some(b)) => Some(format!("(* {} {})", a, b)),
        }
    }
    fn times(x: String, d: &Option<String>) -> String {
        match d {
            None => x,
            Some(d) => format!("(* {} {})", x, d),
        }
    }
    pub fn visit(&mut self, t: Tid) {
        if self.done.contains(&t) {
            return;
        }
        let mut stack = vec![(t, false)];
        while let Some((u, expanded)) = stack.pop() {
            if self.done.contains(&u) {
                continue;
            }
            let n = self.ar.nodes[u as usize];
            let kids: Vec<Tid> = match n {
                Node::Var(_) | Node::Const(_) => vec![],
                Node::Add(a, b) | Node::Sub(a, b) | Node::Mul(a, b) => vec![a, b],
                Node::Neg(a) | Node::Inv(a) => vec![a],
            };
            if !expanded {
                stack.push((u, true));
                for k in kids {
                    if !self.done.contains(&k) {
                        stack.push((k, false));
                    }
                }
                continue;
            }
            match n {
                Node::Var(i) => {
                    self.vars.insert(i);
                }
                Node::Const(_) => {}
                Node::Add(a, b) | Node::Sub(a, b) => {
                    let op = if matches!(n, Node::Add(..)) { "+" } else { "-" };
                    let (da, db) = (self.den(a), self.den(b));
                    let e = format!("({} {} {})", op, Self::times(self.num(a), &db), Self::times(self.num(b), &da));
                    self.out.push_str(&format!("(define-fun n{} () Int {})\n", u, e));
                    if let Some(d) = Self::mulo(da, db) {
                        self.out.push_str(&format!("(define-fun d{} () Int {})\n", u, d));
                        self.has_den.insert(u);
                    }
                }
                Node::Mul(a, b) if self.abstract_mul && !self.is_const(a) && !self.is_const(b) => {
                    self.out.push_str(&format!("(declare-const n{} Int)\n", u));
                    self.lemmas.push_str(&format!(
                        "(assert (= (= (mod n{u} {p}) 0) (or (= (mod {a} {p}) 0) (= (mod {b} {p}) 0))))\n",
                        u = u,
                        p = P_DEC,
                        a = self.num(a),
                        b = self.num(b)
                    ));
                    if self.den(a).is_some() || self.den(b).is_some() {
                        // abstraction of fractions is not supported: mark so the caller can skip this tier
                        self.has_den.insert(u);
                        self.out.push_str(&format!("(define-fun d{} () Int 1)\n", u));
                        self.lemmas.push_str("(assert false)\n");
                    }
                }
                Node::Mul(a, b) => {
                    self.out.push_str(&format!("(define-fun n{} () Int (* {} {}))\n", u, self.num(a), self.num(b)));
                    if let Some(d) = Self::mulo(self.den(a), self.den(b)) {
                        self.out.push_str(&format!("(define-fun d{} () Int {})\n", u, d));
                        self.has_den.insert(u);
                    }
                }
                Node::Neg(a) => {
                    self.out.push_str(&format!("(define-fun n{} () Int (- {}))\n", u, self.num(a)));
                    if let Some(d) = self.den(a) {
                        self.out.push_str(&format!("(define-fun d{} () Int {})\n", u, d));
                        self.has_den.insert(u);
                    }
                }
                Node::Inv(a) => {
                    let nn = self.den(a).unwrap_or("1".into());
                    self.out.push_str(&format!("(define-fun n{} () Int {})\n", u, nn));
                    self.out.push_str(&format!("(define-fun d{} () Int {})\n", u, self.num(a)));
                    self.has_den.insert(u);
                }
            }
            self.done.insert(u);
        }
    }
    pub fn eq_atom(&mut self, a: Tid, b: Tid) -> String {
        self.visit(a);
        self.visit(b);
        let (da, db) = (self.den(a), self.den(b));
        let l = Self::times(self.num(a), &db);
        let r = Self::times(self.num(b), &da);
        format!("(= (mod (- {} {}) {}) 0)", l, r, P_DEC)
    }
    pub fn atom(&mut self, c: Cond) -> Option<String> {
        match c {
            Cond::Eq(a, b) => Some(self.eq_atom(a, b)),
            Cond::Lt(a, b) => {
                self.visit(a);
                self.visit(b);
                if self.den(a).is_some() || self.den(b).is_some() {
                    return None;
                }
                Some(format!("(< (mod {} {p}) (mod {} {p}))", self.num(a), self.num(b), p = P_DEC))
            }
        }
    }
    pub fn any_den(&self) -> bool {
        !self.has_den.is_empty()
    }
}

/// variable support of a term (memoised)
pub fn supp(ar: &Arena, t: Tid, memo: &mut HashMap<Tid, BTreeSet<u32>>) -> BTreeSet<u32> {
    if let Some(s) = memo.get(&t) {
        return s.clone();
    }
    // iterative to avoid deep recursion
    let mut stack = vec![(t, false)];
    while let Some((u, expanded)) = stack.pop() {
        if memo.contains_key(&u) {
            continue;
        }
        let kids: Vec<Tid> = match ar.nodes[u as usize] {
            Node::Var(_) | Node::Const(_) => vec![],
            Node::Add(a, b) | Node::Sub(a, b) | Node::Mul(a, b) => vec![a, b],
            Node::Neg(a) | Node::Inv(a) => vec![a],
        };
        if !expanded {
            stack.push((u, true));
            for k in kids {
                if !memo.contains_key(&k) {
                    stack.push((k, false));
                }
            }
            continue;
        }
        let mut s = BTreeSet::new();
        if let Node::Var(i) = ar.nodes[u as usize] {
            s.insert(i);
        }
        for k in kids {
            s.extend(memo[&k].iter().copied());
        }
        memo.insert(u, s);
    }
    memo[&t].clone()
}

fn has_inv(ar: &Arena, t: Tid, memo: &mut HashMap<Tid, bool>) -> bool {
    if let Some(b) = memo.get(&t) {
        return *b;
    }
    let mut stack = vec![(t, false)];
    while let Some((u, expanded)) = stack.pop() {
        if memo.contains_key(&u) {
            continue;
        }
        let kids: Vec<Tid> = match ar.nodes[u as usize] {
            Node::Var(_) | Node::Const(_) => vec![],
            Node::Add(a, b) | Node::Sub(a, b) | Node::Mul(a, b) => vec![a, b],
            Node::Neg(a) | Node::Inv(a) => vec![a],
        };
        if !expanded {
            stack.push((u, true));
            for k in kids {
                if !memo.contains_key(&k) {
                    stack.push((k, false));
                }
            }
            continue;
        }
        let v = matches!(ar.nodes[u as usize], Node::Inv(_)) || kids.iter().any(|k| memo[k]);
        memo.insert(u, v);
    }
    memo[&t]
}

/// flatten the additive spine of `t` into signed summands
fn spine(ar: &Arena, t: Tid, sign: bool, out: &mut Vec<(bool, Tid)>) {
    let mut stack = vec![(t, sign)];
    while let Some((u, sg)) = stack.pop() {
        match ar.nodes[u as usize] {
            Node::Add(a, b) => {
                stack.push((b, sg));
                stack.push((a, sg));
            }
            Node::Sub(a, b) => {
                stack.push((b, !sg));
                stack.push((a, sg));
            }
            Node::Neg(a) => stack.push((a, !sg)),
            _ => out.push((sg, u)),
        }
    }
}

/// A definition `var := scale * (sum of signed summands)` derived from a positive path equality.
#[derive(Clone, Debug)]
pub struct Subst {
    pub var: u32,
    pub scale: Fr,
    pub body: Vec<(bool, Tid)>,
}

/// Tier E: from the positive equalities of `conds`, derive definitions of unconstrained variables
/// (Gaussian elimination over F_r; equivalence preserving).
pub fn substitutions(ar: &Arena, conds: &[(Cond, bool)]) -> Vec<Subst> {
    let mut memo = HashMap::new();
    let mut invmemo = HashMap::new();
    let mut subs: Vec<Subst> = vec![];
    let mut used: BTreeSet<u32> = BTreeSet::new();
    for (c, pol) in conds {
        let (a, b) = match (c, pol) {
            (Cond::Eq(a, b), true) => (*a, *b),
            _ => continue,
        };
        if has_inv(ar, a, &mut invmemo) || has_inv(ar, b, &mut invmemo) {
            continue;
        }
        let mut sp = vec![];
        spine(ar, a, true, &mut sp);
        spine(ar, b, false, &mut sp);
        if sp.len() > 4000 {
            continue;
        }
        let mut pick = None;
        for (k, (sg, t)) in sp.iter().enumerate() {
            // summand = Var v  |  Const c * Var v  |  Var v * Const c
            let (v, coef) = match ar.nodes[*t as usize] {
                Node::Var(v) => (v, Fr::from(1u8)),
                Node::Mul(x, y) => match (ar.nodes[x as usize], ar.nodes[y as usize]) {
                    (Node::Const(c), Node::Var(v)) | (Node::Var(v), Node::Const(c)) => (v, Fr::from(ark_ff::BigInt(c))),
                    _ => continue,
                },
                _ => continue,
            };
            if coef == Fr::from(0u8) {
                continue;
            }
            if used.contains(&v) || ar.var_nonzero[v as usize] || ar.var_bits[v as usize] != 0 {
                continue;
            }
            let mut ok = true;
            for (j, (_, u)) in sp.iter().enumerate() {
                if j != k && supp(ar, *u, &mut memo).contains(&v) {
                    ok = false;
                    break;
                }
            }
            if ok {
                pick = Some((k, v, *sg, coef));
                break;
            }
        }
        if let Some((k, v, sg, coef)) = pick {
            // sg*coef*v + rest == 0  =>  v = -(sg*coef)^-1 * rest
            let mut body_vars = BTreeSet::new();
            let rest: Vec<(bool, Tid)> = sp.iter().enumerate().filter(|(j, _)| *j != k).map(|(_, x)| *x).collect();
            for (_, t) in &rest {
                body_vars.extend(supp(ar, *t, &mut memo));
            }
            if body_vars.iter().any(|w| subs.iter().any(|s| s.var == *w)) {
                continue;
            }
            let mut scale = coef.inverse().unwrap();
            if sg {
                scale = -scale;
            }
            used.insert(v);
            used.extend(body_vars);
            subs.push(Subst { var: v, scale, body: rest });
        }
    }
    subs
}

pub fn eval(ar: &Arena, t: Tid, asg: &[Fr], memo: &mut HashMap<Tid, Fr>) -> Fr {
    if let Some(v) = memo.get(&t) {
        return *v;
    }
    let mut stack = vec![(t, false)];
    while let Some((u, expanded)) = stack.pop() {
        if memo.contains_key(&u) {
            continue;
        }
        let n = ar.nodes[u as usize];
        let kids: Vec<Tid> = match n {
            Node::Var(_) | Node::Const(_) => vec![],
            Node::Add(a, b) | Node::Sub(a, b) | Node::Mul(a, b) => vec![a, b],
            Node::Neg(a) | Node::Inv(a) => vec![a],
        };
        if !expanded {
            stack.push((u, true));
            for k in kids {
                if !memo.contains_key(&k) {
                    stack.push((k, false));
                }
            }
            continue;
        }
        let v = match n {
            Node::Var(i) => asg[i as usize],
            Node::Const(l) => Fr::from(ark_ff::BigInt(l)),
            Node::Add(a, b) => memo[&a] + memo[&b],
            Node::Sub(a, b) => memo[&a] - memo[&b],
            Node::Mul(a, b) => memo[&a] * memo[&b],
            Node::Neg(a) => -memo[&a],
            Node::Inv(a) => memo[&a].inverse().unwrap_or(Fr::from(0u8)),
        };
        memo.insert(u, v);
    }
    memo[&t]
}

pub fn eval_cond(ar: &Arena, c: Cond, asg: &[Fr]) -> bool {
    let mut memo = HashMap::new();
    match c {
        Cond::Eq(a, b) => eval(ar, a, asg, &mut memo) == eval(ar, b, asg, &mut memo),
        Cond::Lt(a, b) => eval(ar, a, asg, &mut memo) < eval(ar, b, asg, &mut memo),
    }
}

pub fn support(ar: &Arena, c: Cond) -> Vec<u32> {
    let mut memo = HashMap::new();
    let (a, b) = match c {
        Cond::Eq(a, b) | Cond::Lt(a, b) => (a, b),
    };
    let mut s = supp(ar, a, &mut memo);
    s.extend(supp(ar, b, &mut memo));
    s.into_iter().collect()
}

pub struct Query {
    pub text: String,
    /// variables whose values must be read from the model
    pub vars: Vec<u32>,
    pub subs: Vec<Subst>,
    pub axioms: usize,
}

fn ro_axioms(e: &mut Emit, ar: &Arena, relevant: &BTreeSet<u32>) -> (String, usize) {
    // entries whose output is a variable occurring in the query (or a constant compared with one)
    let ents = &ar.ro_entries;
    let mut s = String::new();
    let mut n = 0;
    let is_rel = |t: Tid| match ar.nodes[t as usize] {
        Node::Var(v) => relevant.contains(&v),
        _ => false,
    };
    for i in 0..ents.len() {
        for j in (i + 1)..ents.len() {
            let (a, b) = (&ents[i], &ents[j]);
            if a.family != b.family || a.out == b.out {
                continue;
            }
            if !(is_rel(a.out) || is_rel(b.out)) {
                continue;
            }
            if !(is_rel(a.out) && (is_rel(b.out) || e.is_const(b.out)) || is_rel(b.out) && e.is_const(a.out)) {
                continue;
            }
            e.visit(a.out);
            e.visit(b.out);
            let outs_eq = format!("(= {} {})", e.num(a.out), e.num(b.out));
            if a.class != b.class || a.args.len() != b.args.len() {
                s.push_str(&format!("(assert (not {}))\n", outs_eq));
            } else {
                let mut conj = String::from("(and true");
                for (x, y) in a.args.iter().zip(b.args.iter()) {
                    if x != y {
                        conj.push(' ');
                        conj.push_str(&e.eq_atom(*x, *y));
                    }
                }
                conj.push(')');
                s.push_str(&format!("(assert (=> {} {}))\n", outs_eq, conj));
            }
            n += 1;
        }
    }
    (s, n)
}

/// Build the query for the conjunction `conds`.
/// `free`: Some(v) = tier C (every variable except `v` fixed to its current value).
/// `abstract_mul`: tier A.
pub fn emit_query(ar: &Arena, conds: &[(Cond, bool)], free: Option<u32>, abstract_mul: bool, use_subst: bool) -> Option<Query> {
    let mut e = Emit::new(ar, abstract_mul);
    let mut asserts = String::new();
    for (c, pol) in conds {
        let a = e.atom(*c)?;
        if *pol {
            asserts.push_str(&format!("(assert {})\n", a));
        } else {
            asserts.push_str(&format!("(assert (not {}))\n", a));
        }
    }
    if abstract_mul && e.any_den() {
        return None;
    }
    let subs = if free.is_none() && use_subst && !abstract_mul { substitutions(ar, conds) } else { vec![] };
    for s in &subs {
        for (_, t) in &s.body {
            e.visit(*t);
        }
    }
    let relevant: BTreeSet<u32> = e.vars.clone();
    let (axioms, n_ax) = ro_axioms(&mut e, ar, &relevant);
    let vars_all: Vec<u32> = e.vars.iter().copied().collect();
    let subst_vars: BTreeSet<u32> = subs.iter().map(|s| s.var).collect();
    let mut s = String::new();
    for v in &vars_all {
        if subst_vars.contains(v) {
            continue;
        }
        if free.is_some() && free != Some(*v) {
            s.push_str(&format!("(define-fun x{} () Int {})\n", v, fr_dec(&ar.var_vals[*v as usize])));
            continue;
        }
        let bits = ar.var_bits[*v as usize];
        let ub = if bits == 0 { P_DEC.to_string() } else { (BigUint::from(1u8) << bits as usize).to_string() };
        let lb = if ar.var_nonzero[*v as usize] { "1" } else { "0" };
        s.push_str(&format!("(declare-const x{v} Int)\n(assert (and (<= {lb} x{v}) (< x{v} {ub})))\n", v = v, ub = ub, lb = lb));
    }
    let vars: Vec<u32> = match free {
        Some(f) => vec![f],
        None => vars_all.iter().copied().filter(|v| !subst_vars.contains(v)).collect(),
    };
    if subs.is_empty() {
        s.push_str(&e.out);
    } else {
        // 1) node definitions independent of substituted variables, 2) substitutions, 3) the rest
        let mut memo = HashMap::new();
        let mut first = String::new();
        let mut second = String::new();
        for line in e.out.lines() {
            let name = line.split_whitespace().nth(1).unwrap();
            let tid: Tid = name[1..].parse().unwrap();
            let dep = supp(ar, tid, &mut memo).iter().any(|v| subst_vars.contains(v));
            if dep {
                second.push_str(line);
                second.push('\n');
            } else {
                first.push_str(line);
                first.push('\n');
            }
        }
        s.push_str(&first);
        for sb in &subs {
            let mut body = String::from("(+ 0");
            for (sg, t) in &sb.body {
                body.push(' ');
                if *sg {
                    body.push_str(&e.num(*t));
                } else {
                    body.push_str(&format!("(- {})", e.num(*t)));
                }
            }
            body.push(')');
            s.push_str(&format!("(define-fun x{} () Int (* {} {}))\n", sb.var, fr_dec(&sb.scale), body));
        }
        s.push_str(&second);
    }
    s.push_str(&e.lemmas);
    s.push_str(&asserts);
    s.push_str(&axioms);
    Some(Query { text: s, vars, subs, axioms: n_ax })
}
