//! Generational (SAGE-style) dynamic symbolic execution driver.
use super::sf::{RNG_DRAWS, RNG_NONZERO, SF, SYM_RNG};
use super::smt::{emit_query, emit_query_norm, eval, eval_cond, fr_dec, support, Query};
use super::solver::{Ans, Session, Which};
use super::term::{canon_eq, reset, Branch, Cond, Kind, Node, ARENA};
use ark_bls12_381::Fr;
use ark_ff::{PrimeField, UniformRand, Zero};
use ark_std::rand::{rngs::StdRng, SeedableRng};
use serde_json::{json, Value};
use std::cell::RefCell;
use std::collections::hash_map::DefaultHasher;
use std::collections::{HashMap, HashSet, VecDeque};
use std::hash::{Hash, Hasher};
use std::time::Instant;

thread_local! {
    static LAST_PANIC: RefCell<String> = RefCell::new(String::new());
    static INPUT: RefCell<(Vec<Fr>, StdRng)> = RefCell::new((vec![], StdRng::seed_from_u64(0)));
    static DISCARD: RefCell<Option<String>> = RefCell::new(None);
    /// replay mode: random-oracle outputs take their natural value (a hash of the concrete arguments)
    /// instead of the value the solver chose for them
    static NATURAL_RO: std::cell::Cell<bool> = std::cell::Cell::new(false);
    /// replay mode: drivers draw their trapdoor-bearing setup (SRS) from a different seed
    static REPLAY_SALT: std::cell::Cell<u64> = std::cell::Cell::new(0);
}

/// Salt that drivers mix into the seed of trapdoor-bearing setups. It is 0 during exploration and
/// non-zero in the confirmation replay of a violation: a violation that depends on the particular
/// trapdoor value (inputs only an adversary who knows the trapdoor could pick) does not survive it.
pub fn replay_salt() -> u64 {
    REPLAY_SALT.with(|c| c.get())
}

/// Silence panic output and remember the source file of the last panic (line numbers are not part
/// of finding keys: they move with unrelated edits).
pub fn install_panic_hook() {
    std::panic::set_hook(Box::new(|info| {
        let file = info.location().map(|l| l.file().to_string()).unwrap_or_default();
        let short = file.rsplit("/src/").next().unwrap_or(&file).to_string();
        let krate = if file.contains("poly-commit/src") { "poly-commit/src/" } else if file.contains("sympc/src") { "sympc/src/" } else { "dep:" };
        LAST_PANIC.with(|p| *p.borrow_mut() = format!("{}{}", krate, short));
        if std::env::var("SYMPC_PANICS").is_ok() {
            eprintln!("panic: {}", info);
        }
    }));
}
pub fn last_panic_file() -> String {
    LAST_PANIC.with(|p| p.borrow().clone())
}

fn next_value(default: impl FnOnce(&mut StdRng) -> Fr) -> Fr {
    let idx = ARENA.with(|a| a.borrow().var_vals.len());
    INPUT.with(|i| {
        let mut i = i.borrow_mut();
        if idx < i.0.len() {
            i.0[idx]
        } else {
            let v = default(&mut i.1);
            i.0.push(v);
            v
        }
    })
}

fn clamp(mut v: Fr, bits: u32, nonzero: bool) -> Fr {
    if bits != 0 && bits < 255 {
        let mut b = v.into_bigint();
        for k in (bits as usize)..256 {
            b.0[k / 64] &= !(1u64 << (k % 64));
        }
        v = Fr::from_bigint(b).unwrap();
    }
    if nonzero && v.is_zero() {
        v = Fr::from(1u8);
    }
    v
}

/// A fresh symbolic input ranging over the whole field.
pub fn sym(name: &str) -> SF {
    let v = next_value(|r| Fr::rand(r));
    SF::var_full(name, v, 0, false)
}
/// A fresh symbolic input with the built-in assumption `x != 0`.
pub fn sym_nonzero(name: &str) -> SF {
    let v = clamp(next_value(|r| Fr::rand(r)), 0, true);
    SF::var_full(name, v, 0, true)
}
/// Symbolic input whose first-run value is `default`.
pub fn sym_default(name: &str, default: Fr) -> SF {
    let v = next_value(|_| default);
    SF::var_full(name, v, 0, false)
}
/// Random-oracle output: non-zero, `bits`-bit range.
pub fn sym_ro(name: &str, default: Fr, bits: u32) -> SF {
    let mut v = clamp(next_value(|_| default), bits, true);
    if NATURAL_RO.with(|c| c.get()) {
        v = clamp(default, bits, true);
        let idx = ARENA.with(|a| a.borrow().var_vals.len());
        INPUT.with(|i| i.borrow_mut().0[idx] = v);
    }
    SF::var_full(name, v, bits, true)
}
/// Symbolic RNG draw (blinding randomness).
pub fn sym_rng_draw(default: Fr) -> SF {
    let nz = RNG_NONZERO.with(|c| c.get());
    let v = clamp(next_value(|_| default), 0, nz);
    let n = RNG_DRAWS.with(|c| c.get());
    SF::var_full(&format!("rng{}", n), v, 0, nz)
}
/// Run `f` with the RNG stub in symbolic mode.
pub fn with_sym_rng<T>(on: bool, f: impl FnOnce() -> T) -> T {
    let old = SYM_RNG.with(|c| c.replace(on));
    let r = f();
    SYM_RNG.with(|c| c.set(old));
    r
}

/// Driver-side assumption on a derived value: `a != b` must hold, otherwise the run is discarded.
/// Recorded in place (assumptions are not retroactive) and never flipped.
pub fn assume_ne(a: SF, b: SF, what: &str) -> bool {
    let holds = a.v != b.v;
    if a.t != 0 || b.t != 0 {
        let (x, y) = (a.tid(), b.tid());
        ARENA.with(|ar| ar.borrow_mut().record_kind(canon_eq(x, y), !holds, Kind::Assume));
    }
    if !holds {
        DISCARD.with(|d| *d.borrow_mut() = Some(what.to_string()));
    }
    holds
}
pub fn assume_eq(a: SF, b: SF, what: &str) -> bool {
    let holds = a.v == b.v;
    if a.t != 0 || b.t != 0 {
        let (x, y) = (a.tid(), b.tid());
        ARENA.with(|ar| ar.borrow_mut().record_kind(canon_eq(x, y), holds, Kind::Assume));
    }
    if !holds {
        DISCARD.with(|d| *d.borrow_mut() = Some(what.to_string()));
    }
    holds
}

#[derive(Clone, Debug)]
pub enum Verdict {
    Hold,
    /// `key` identifies the violated clause (matched against known_findings.json), `msg` is free text
    Violation { key: String, msg: String },
    /// an assumption of the driver did not hold on this input: the run says nothing
    Discard(String),
}
impl Verdict {
    pub fn viol(key: &str, msg: impl Into<String>) -> Verdict {
        Verdict::Violation { key: key.to_string(), msg: msg.into() }
    }
    pub fn check(ok: bool, key: &str, msg: impl Into<String>) -> Verdict {
        if ok {
            Verdict::Hold
        } else {
            Verdict::viol(key, msg)
        }
    }
}

#[derive(Clone, Debug)]
pub struct Limits {
    pub max_runs: usize,
    pub wall_s: f64,
    pub tl_ms: u64,
    pub max_violations: usize,
    pub xcheck_every: usize,
    /// explore the deepest pending alternative first (finds inputs that pass long chains of checks)
    pub deep_first: bool,
}
impl Limits {
    pub fn quick() -> Self {
        Limits { max_runs: 400, wall_s: 120.0, tl_ms: 1500, max_violations: 2, xcheck_every: 6, deep_first: false }
    }
    pub fn thorough() -> Self {
        Limits { max_runs: 6000, wall_s: 420.0, tl_ms: 5000, max_violations: 3, xcheck_every: 4, deep_first: false }
    }
}

#[derive(Default, Debug)]
pub struct Report {
    pub runs: usize,
    pub paths: usize,
    pub discarded: usize,
    pub queries: usize,
    pub unsat: usize,
    pub sat: usize,
    pub unknown: usize,
    pub tier: HashMap<String, usize>,
    pub solver_ms: u128,
    pub pins: usize,
    pub pin_notes: Vec<String>,
    pub divergent: usize,
    pub selfcheck_fail: usize,
    pub violations: Vec<Value>,
    pub max_path_len: usize,
    pub max_vars: usize,
    pub complete: bool,
    pub frontier: usize,
    pub samples: Vec<Value>,
    pub xchecks: usize,
    pub disagreements: usize,
    pub ro_fresh: usize,
    pub ro_hits: usize,
    pub axioms: usize,
    pub unknown_notes: Vec<String>,
    pub wall_s: f64,
    pub stopped: String,
    pub oracle_only: usize,
    pub negligible: usize,
    pub heuristic_runs: usize,
}
impl Report {
    pub fn to_json(&self) -> Value {
        json!({
            "runs": self.runs, "paths": self.paths, "discarded": self.discarded, "queries": self.queries,
            "unsat": self.unsat, "sat": self.sat, "unresolved": self.unknown, "tiers": self.tier,
            "solver_ms": self.solver_ms as u64, "pins": self.pins, "pin_notes": self.pin_notes,
            "divergent": self.divergent, "selfcheck_fail": self.selfcheck_fail, "violations": self.violations,
            "max_path_len": self.max_path_len, "max_vars": self.max_vars, "exhaustive": self.complete,
            "frontier": self.frontier, "samples": self.samples, "xchecks": self.xchecks,
            "solver_disagreements": self.disagreements, "ro_fresh": self.ro_fresh, "ro_hits": self.ro_hits,
            "ro_axioms": self.axioms, "unresolved_notes": self.unknown_notes, "wall_s": self.wall_s, "stopped": self.stopped, "oracle_only_models": self.oracle_only, "assumed_oracle_generic": self.negligible, "heuristic_runs": self.heuristic_runs,
        })
    }
}

fn hash_conds(c: &[(Cond, bool)]) -> u64 {
    let mut h = DefaultHasher::new();
    c.hash(&mut h);
    h.finish()
}

pub struct RunOut {
    pub verdict: Verdict,
    pub path: Vec<Branch>,
    pub assignment: Vec<Fr>,
    pub names: Vec<String>,
    pub selfcheck_fail: usize,
}

/// One native execution of the driver on `input` (values for the symbolic inputs in creation order).
pub fn run_once(f: &dyn Fn() -> Verdict, input: Vec<Fr>, seed: u64) -> RunOut {
    run_once_mode(f, input, seed, false)
}
/// `natural_ro`: ignore the input's values for random-oracle outputs and use the oracle's own
/// (hash-derived) values: a violation that survives this replay does not depend on the solver
/// having chosen oracle outputs.
pub fn run_once_mode(f: &dyn Fn() -> Verdict, input: Vec<Fr>, seed: u64, natural_ro: bool) -> RunOut {
    NATURAL_RO.with(|c| c.set(natural_ro));
    REPLAY_SALT.with(|c| c.set(if natural_ro { 0x5a17 } else { 0 }));
    let out = run_once_inner(f, input, seed);
    NATURAL_RO.with(|c| c.set(false));
    REPLAY_SALT.with(|c| c.set(0));
    out
}
fn run_once_inner(f: &dyn Fn() -> Verdict, input: Vec<Fr>, seed: u64) -> RunOut {
    reset();
    super::ro::reset();
    RNG_DRAWS.with(|c| c.set(0));
    RNG_NONZERO.with(|c| c.set(false));
    SYM_RNG.with(|c| c.set(false));
    super::sponge::TAPE_SEED.with(|c| c.set(seed));
    DISCARD.with(|d| *d.borrow_mut() = None);
    INPUT.with(|i| *i.borrow_mut() = (input, StdRng::seed_from_u64(seed ^ 0x5eed)));
    let r = std::panic::catch_unwind(std::panic::AssertUnwindSafe(|| f()));
    SYM_RNG.with(|c| c.set(false));
    super::ro::flush_pending();
    let mut verdict = match r {
        Ok(v) => v,
        Err(e) => {
            let msg = if let Some(s) = e.downcast_ref::<String>() {
                s.clone()
            } else if let Some(s) = e.downcast_ref::<&str>() {
                s.to_string()
            } else {
                "panic".to_string()
            };
            let short: String = msg.chars().take(80).collect();
            Verdict::Violation { key: format!("panic@{}: {}", last_panic_file(), short), msg }
        }
    };
    if let Some(w) = DISCARD.with(|d| d.borrow_mut().take()) {
        if !matches!(verdict, Verdict::Violation { .. }) || true {
            verdict = Verdict::Discard(w);
        }
    }
    let (path, assignment, names) = ARENA.with(|a| {
        let a = a.borrow();
        (a.path.clone(), a.var_vals.clone(), a.var_names.clone())
    });
    // self-check of the term semantics: every recorded condition re-evaluates to its recorded outcome
    let mut bad = 0;
    ARENA.with(|a| {
        let a = a.borrow();
        for b in &path {
            if eval_cond(&a, b.cond, &assignment) != b.taken {
                bad += 1;
            }
        }
        bad += a.notes.len();
    });
    RunOut { verdict, path, assignment, names, selfcheck_fail: bad }
}

struct Solvers {
    cvc5_n: Session,
    cvc5_x: Session,
    cvc5_a: Session,
    z3_x: Session,
    cvc5_c: Session,
    z3_check: Session,
    tl_ms: u64,
}

enum Dec {
    /// the alternative needs a non-trivial polynomial relation among independent random-oracle outputs
    Negligible,
    Unsat(&'static str),
    Sat(Vec<Fr>, &'static str),
    Unknown(String),
}

fn model_to_input(q: &Query, vals: &[(u32, num_bigint::BigUint)], base: &[Fr]) -> Vec<Fr> {
    let mut ni = base.to_vec();
    for (v, x) in vals {
        ni[*v as usize] = Fr::from(x.clone());
    }
    ARENA.with(|a| {
        let a = a.borrow();
        for sb in &q.subs {
            let mut memo = HashMap::new();
            let mut acc = Fr::zero();
            for (sg, t) in &sb.body {
                let x = eval(&a, *t, &ni, &mut memo);
                if *sg {
                    acc += x
                } else {
                    acc -= x
                }
            }
            ni[sb.var as usize] = sb.scale * acc;
        }
    });
    for (v, r) in &q.psubs {
        ni[*v as usize] = r.eval(&ni);
    }
    ni
}

/// Portfolio: exact query on cvc5 and z3 and the abstraction on cvc5, concurrently; first conclusive
/// answer wins, the others are aborted. Then tier C.
fn decide(s: &mut Solvers, conds: &[(Cond, bool)], flipped: Cond, base: &[Fr], rep: &mut Report) -> Dec {
    let qx = ARENA.with(|a| emit_query(&a.borrow(), conds, None, false, true));
    let qx = match qx {
        Some(q) => q,
        None => return Dec::Unknown("order comparison on a fraction".into()),
    };
    rep.axioms += qx.axioms;
    // tier N (normal-form atoms) on its own session first: decides most obligations in milliseconds
    let qn = ARENA.with(|a| emit_query_norm(&a.borrow(), conds));
    let mut n_live = false;
    if let Some(qn) = &qn {
        n_live = s.cvc5_n.send(&qn.text, &qn.vars);
        match s.cvc5_n.poll(std::time::Duration::from_millis(150)) {
            Some(Ans::Unsat) => return Dec::Unsat("N-cvc5"),
            Some(Ans::Sat(vals)) => return Dec::Sat(model_to_input(qn, &vals, base), "N-cvc5"),
            Some(Ans::Unknown(_)) => n_live = false,
            None => {}
        }
        if qn.oracle_only {
            // the solver did not settle it at once: the alternative needs a relation among oracle outputs only
            s.cvc5_n.abort();
            return Dec::Negligible;
        }
    }
    // quick attempt on the DAG encoding
    s.cvc5_x.send(&qx.text, &qx.vars);
    match s.cvc5_x.poll(std::time::Duration::from_millis(120)) {
        Some(Ans::Unsat) => { s.cvc5_n.abort(); return Dec::Unsat("X-cvc5") }
        Some(Ans::Sat(vals)) => { s.cvc5_n.abort(); return Dec::Sat(model_to_input(&qx, &vals, base), "X-cvc5") }
        _ => {}
    }
    let qa = ARENA.with(|a| emit_query(&a.borrow(), conds, None, true, false));
    let mut a_live = false;
    if let Some(qa) = &qa {
        a_live = s.cvc5_a.send(&qa.text, &[]);
    }
    let mut z_live = s.z3_x.send(&qx.text, &qx.vars);
    let mut x_live = true;
    let t0 = Instant::now();
    let deadline = std::time::Duration::from_millis(s.tl_ms);
    let step = std::time::Duration::from_millis(15);
    let mut result: Option<Dec> = None;
    while t0.elapsed() < deadline && (x_live || a_live || z_live || n_live) {
        if n_live {
            if let Some(a) = s.cvc5_n.poll(step) {
                n_live = false;
                match a {
                    Ans::Unsat => result = Some(Dec::Unsat("N-cvc5")),
                    Ans::Sat(vals) => result = Some(Dec::Sat(model_to_input(qn.as_ref().unwrap(), &vals, base), "N-cvc5")),
                    Ans::Unknown(_) => {}
                }
            }
        }
        if result.is_some() {
            break;
        }
        if x_live {
            if let Some(a) = s.cvc5_x.poll(step) {
                x_live = false;
                match a {
                    Ans::Unsat => result = Some(Dec::Unsat("X-cvc5")),
                    Ans::Sat(vals) => result = Some(Dec::Sat(model_to_input(&qx, &vals, base), "X-cvc5")),
                    Ans::Unknown(_) => {}
                }
            }
        }
        if result.is_none() && a_live {
            if let Some(a) = s.cvc5_a.poll(step) {
                a_live = false;
                if let Ans::Unsat = a {
                    result = Some(Dec::Unsat("A-cvc5"));
                }
            }
        }
        if result.is_none() && z_live {
            if let Some(a) = s.z3_x.poll(step) {
                z_live = false;
                match a {
                    Ans::Unsat => result = Some(Dec::Unsat("X-z3")),
                    Ans::Sat(vals) => result = Some(Dec::Sat(model_to_input(&qx, &vals, base), "X-z3")),
                    Ans::Unknown(_) => {}
                }
            }
        }
        if result.is_some() {
            break;
        }
    }
    s.cvc5_n.abort();
    s.cvc5_x.abort();
    s.cvc5_a.abort();
    s.z3_x.abort();
    if let Some(r) = result {
        return r;
    }
    // tier C: concretise all but one variable of the flipped atom
    let sup = ARENA.with(|a| support(&a.borrow(), flipped));
    for fv in sup.iter().rev().take(6) {
        if let Some(qc) = ARENA.with(|a| emit_query(&a.borrow(), conds, Some(*fv), false, false)) {
            s.cvc5_c.send(&qc.text, &qc.vars);
            match s.cvc5_c.poll(std::time::Duration::from_millis(s.tl_ms.min(600))) {
                Some(Ans::Sat(vals)) => return Dec::Sat(model_to_input(&qc, &vals, base), "C-cvc5"),
                Some(_) => {}
                None => s.cvc5_c.abort(),
            }
        }
    }
    Dec::Unknown("no tier answered within the limits".into())
}

fn describe(names: &[String], vals: &[Fr], max: usize) -> Value {
    let mut m = serde_json::Map::new();
    for (n, v) in names.iter().zip(vals.iter()).take(max) {
        let mut k = n.clone();
        let mut i = 1;
        while m.contains_key(&k) {
            i += 1;
            k = format!("{}#{}", n, i);
        }
        m.insert(k, Value::String(fr_dec(v)));
    }
    Value::Object(m)
}

/// Explore every feasible path of `f` (within `lim`).
pub fn explore(f: &dyn Fn() -> Verdict, seed: u64, lim: &Limits) -> Report {
    if lim.deep_first {
        return explore_dfs(f, seed, lim);
    }
    let t_start = Instant::now();
    let mut rep = Report::default();
    let mut solvers = Solvers {
        cvc5_n: Session::new(Which::Cvc5, lim.tl_ms + 500),
        cvc5_x: Session::new(Which::Cvc5, lim.tl_ms + 500),
        cvc5_a: Session::new(Which::Cvc5, lim.tl_ms + 500),
        z3_x: Session::new(Which::Z3, lim.tl_ms + 500),
        cvc5_c: Session::new(Which::Cvc5, 1000),
        z3_check: Session::new(Which::Z3, 400),
        tl_ms: lim.tl_ms,
    };
    // work item: (input, bound, expected prefix hash)
    let mut work: VecDeque<(Vec<Fr>, usize, Option<Vec<(Cond, bool)>>)> = VecDeque::new();
    work.push_back((vec![], 0, None));
    let mut work_low: VecDeque<(Vec<Fr>, usize, Option<Vec<(Cond, bool)>>)> = VecDeque::new();
    let mut seen_paths: HashSet<u64> = HashSet::new();
    let mut tried: HashSet<u64> = HashSet::new();
    let mut unsat_count = 0usize;
    rep.complete = true;
    while let Some((input, bound, expect)) = (if lim.deep_first { work.pop_back() } else { work.pop_front() }).or_else(|| work_low.pop_front()) {
        if rep.runs >= lim.max_runs || t_start.elapsed().as_secs_f64() > lim.wall_s {
            rep.complete = false;
            rep.frontier = work.len() + work_low.len() + 1;
            rep.stopped = if rep.runs >= lim.max_runs { "max_runs".into() } else { "wall budget".into() };
            break;
        }
        if rep.violations.len() >= lim.max_violations {
            rep.complete = false;
            rep.frontier = work.len() + work_low.len() + 1;
            rep.stopped = "max_violations".into();
            break;
        }
        let out = run_once(f, input, seed);
        rep.runs += 1;
        rep.selfcheck_fail += out.selfcheck_fail;
        let sig: Vec<(Cond, bool)> = out.path.iter().map(|b| (b.cond, b.taken)).collect();
        if let Some(exp) = &expect {
            // the run must follow the predicted prefix
            let ok = sig.len() >= exp.len() && sig[..exp.len()] == exp[..];
            if !ok {
                rep.divergent += 1;
                if std::env::var("SYMPC_DEBUG").is_ok() {
                    let k = (0..exp.len()).find(|k| *k >= sig.len() || sig[*k] != exp[*k]).unwrap();
                    eprintln!("DIVERGE at {} of {}: expected {:?} got {:?}", k, exp.len(), exp[k], sig.get(k));
                    ARENA.with(|a| { let a = a.borrow(); if let Some((c, _)) = sig.get(k) { if let Cond::Eq(x, y) = c { eprintln!("  got nodes {:?} {:?}", a.nodes[*x as usize], a.nodes[*y as usize]); } } });
                }
            }
        }
        if !seen_paths.insert(hash_conds(&sig)) {
            continue;
        }
        match &out.verdict {
            Verdict::Discard(_) => {
                rep.discarded += 1;
            }
            Verdict::Hold => {
                rep.paths += 1;
            }
            Verdict::Violation { key, msg } => {
                rep.paths += 1;
                // a violation counts only if it survives with the oracle's natural outputs
                let nat = run_once_mode(f, out.assignment.clone(), seed, true);
                let same = matches!(&nat.verdict, Verdict::Violation { key: k2, .. } if k2 == key);
                // restore the arena of the original run for the queries below
                let back = run_once(f, out.assignment.clone(), seed);
                let _ = back;
                if !same {
                    rep.oracle_only += 1;
                    if rep.unknown_notes.len() < 5 {
                        rep.unknown_notes.push(format!("violation '{}' needs solver-chosen random-oracle outputs or trapdoor-dependent inputs; replay with natural oracle outputs and a fresh trapdoor: {:?}", key, match &nat.verdict { Verdict::Hold => "holds".to_string(), Verdict::Discard(w) => format!("discarded ({})", w), Verdict::Violation{key,..} => format!("violation {}", key) }));
                    }
                } else {
                rep.violations.push(json!({
                    "key": key, "msg": msg,
                    "inputs": out.assignment.iter().map(fr_dec).collect::<Vec<_>>(),
                    "names": out.names,
                    "path_len": out.path.len(),
                }));
                }
            }
        }
        if std::env::var("SYMPC_TRACE").is_ok() {
            let kinds: String = out.path.iter().map(|b| match b.kind { Kind::Branch => if b.taken { 'B' } else { 'b' }, Kind::RoArg => if b.taken { 'R' } else { 'r' }, Kind::Pin => 'P', Kind::Assume => 'A' }).collect();
            eprintln!("RUN {} bound={} len={} verdict={:?} {}", rep.runs, bound, out.path.len(), match &out.verdict { Verdict::Hold => "hold".to_string(), Verdict::Discard(_) => "discard".to_string(), Verdict::Violation{key,..} => key.clone() }, kinds);
        }
        rep.max_path_len = rep.max_path_len.max(out.path.len());
        rep.max_vars = rep.max_vars.max(out.assignment.len());
        let (pins, notes) = ARENA.with(|a| (a.borrow().pins, a.borrow().pin_notes.clone()));
        rep.pins += pins;
        for n in notes {
            if rep.pin_notes.len() < 6 && !rep.pin_notes.contains(&n) {
                rep.pin_notes.push(n);
            }
        }
        let (fr, hi, _) = super::ro::stats();
        rep.ro_fresh = rep.ro_fresh.max(fr);
        rep.ro_hits = rep.ro_hits.max(hi);
        if rep.samples.len() < 4 {
            rep.samples.push(json!({
                "inputs": describe(&out.names, &out.assignment, 12),
                "branches": out.path.len(),
                "outcome": match &out.verdict { Verdict::Hold => "holds".to_string(), Verdict::Discard(w) => format!("discarded: {}", w), Verdict::Violation{key,..} => format!("VIOLATION {}", key) },
            }));
        }
        // a discarded run's path is still explored (its alternatives may satisfy the assumption)
        // the code's own branches first, then the oracle-argument coincidences (the same set of alternatives;
        // under a wall budget the verifier's checks are the ones that should be decided)
        let order: Vec<usize> = (bound..out.path.len()).filter(|i| out.path[*i].kind == Kind::Branch).chain((bound..out.path.len()).filter(|i| out.path[*i].kind == Kind::RoArg)).collect();
        for i in order {
            if t_start.elapsed().as_secs_f64() > lim.wall_s {
                rep.complete = false;
                rep.stopped = "wall budget".into();
                break;
            }
            let mut conds: Vec<(Cond, bool)> = sig[..i].to_vec();
            conds.push((sig[i].0, !sig[i].1));
            if !tried.insert(hash_conds(&conds)) {
                continue;
            }
            let t0 = Instant::now();
            let dec = decide(&mut solvers, &conds, sig[i].0, &out.assignment, &mut rep);
            rep.solver_ms += t0.elapsed().as_millis();
            rep.queries += 1;
            if let (Ok(dir), true, Dec::Unsat(_)) = (std::env::var("SYMPC_DUMP"), i + 1 == out.path.len(), &dec) {
                if let Some(q) = ARENA.with(|a| emit_query_norm(&a.borrow(), &conds)) {
                    let _ = std::fs::write(format!("{}/lastunsat_run{}.smt2", dir, rep.runs), format!("(set-logic ALL)\n{}(check-sat)\n", q.text));
                }
            }
            if std::env::var("SYMPC_TRACE").is_ok() && i + 3 >= out.path.len() {
                eprintln!("   alt {} of {}: {}", i, out.path.len(), match &dec { Dec::Negligible => "negligible".to_string(), Dec::Unsat(t) => format!("unsat {}", t), Dec::Sat(_, t) => format!("sat {}", t), Dec::Unknown(w) => format!("unknown {}", w) });
            }
            match dec {
                Dec::Negligible => {
                    rep.negligible += 1;
                    *rep.tier.entry("assumed:oracle-generic".into()).or_insert(0) += 1;
                }
                Dec::Unsat(tier) => {
                    // violation hunting: the alternative may be blocked only by recorded oracle-argument
                    // disequalities (e.g. two forged columns that must coincide); try it without them and
                    // run the model as an extra exploratory input (soundness is unaffected: every run is
                    // a real execution, and this alternative stays discharged for the recorded prefix)
                    if lim.deep_first && out.path[i].kind == Kind::Branch && i + 1 == out.path.len() {
                        let relaxed: Vec<(Cond, bool)> = conds.iter().enumerate().filter(|(k, c)| *k == i || !(out.path[*k].kind == Kind::RoArg && !c.1)).map(|(_, c)| *c).collect();
                        if relaxed.len() < conds.len() && tried.insert(hash_conds(&relaxed) ^ 0x9e3779b97f4a7c15) {
                            if let Dec::Sat(ni, _) = decide(&mut solvers, &relaxed, sig[i].0, &out.assignment, &mut rep) {
                                rep.heuristic_runs += 1;
                                work.push_back((ni, 0, None));
                            }
                        }
                    }
                    rep.unsat += 1;
                    *rep.tier.entry(format!("unsat:{}", tier)).or_insert(0) += 1;
                    unsat_count += 1;
                    if lim.xcheck_every > 0 && unsat_count % lim.xcheck_every == 0 {
                        // solver diff: ask the other solver the same exact query
                        if let Some(q) = ARENA.with(|a| emit_query(&a.borrow(), &conds, None, false, true)) {
                            rep.xchecks += 1;
                            let other = if tier.contains("z3") { &mut solvers.cvc5_c } else { &mut solvers.z3_check };
                            if let Ans::Sat(vals) = other.ask(&q.text, &q.vars) {
                                // only a model that really satisfies the conditions is a disagreement
                                let ni = model_to_input(&q, &vals, &out.assignment);
                                let all = ARENA.with(|a| {
                                    let a = a.borrow();
                                    ni.len() == a.var_vals.len() && conds.iter().all(|(c, p)| eval_cond(&a, *c, &ni) == *p)
                                });
                                if all {
                                    rep.disagreements += 1;
                                    if let Ok(dir) = std::env::var("SYMPC_DUMP") {
                                        let _ = std::fs::write(format!("{}/disagree{}_x.smt2", dir, rep.disagreements), format!("(set-logic ALL)\n{}(check-sat)\n", q.text));
                                        if let Some(qn) = ARENA.with(|a| emit_query_norm(&a.borrow(), &conds)) {
                                            let _ = std::fs::write(format!("{}/disagree{}_n.smt2", dir, rep.disagreements), format!("(set-logic ALL)\n{}(check-sat)\n", qn.text));
                                        }
                                        let _ = std::fs::write(format!("{}/disagree{}_model.txt", dir, rep.disagreements), format!("tier {} model {:?}", tier, ni.iter().map(fr_dec).collect::<Vec<_>>()));
                                    }
                                }
                            }
                        }
                    }
                }
                Dec::Sat(ni, tier) => {
                    // validate the model against the engine's own term semantics before running it
                    let ok = ARENA.with(|a| {
                        let a = a.borrow();
                        conds.iter().all(|(c, p)| eval_cond(&a, *c, &ni) == *p)
                    });
                    if ok {
                        rep.sat += 1;
                        *rep.tier.entry(format!("sat:{}", tier)).or_insert(0) += 1;
                        if out.path[i].kind == Kind::RoArg {
                            work_low.push_back((ni, i + 1, Some(conds.clone())));
                        } else {
                            work.push_back((ni, i + 1, Some(conds.clone())));
                        }
                    } else {
                        rep.unknown += 1;
                        *rep.tier.entry("model-rejected".into()).or_insert(0) += 1;
                        if rep.unknown_notes.len() < 5 {
                            rep.unknown_notes.push(format!("branch {} of {}: solver model does not satisfy the query ({})", i, out.path.len(), tier));
                        }
                    }
                }
                Dec::Unknown(w) => {
                    rep.unknown += 1;
                    if rep.unknown_notes.len() < 5 {
                        let s: String = w.chars().take(160).collect();
                        rep.unknown_notes.push(format!("branch {} of {}: {}", i, out.path.len(), s));
                    }
                    if let Ok(dir) = std::env::var("SYMPC_DUMP") {
                        if let Some(q) = ARENA.with(|a| emit_query(&a.borrow(), &conds, None, false, true)) {
                            let _ = std::fs::write(format!("{}/unk{}.smt2", dir, rep.unknown), format!("(set-logic ALL)\n{}(check-sat)\n", q.text));
                        }
                        if let Some(q) = ARENA.with(|a| emit_query_norm(&a.borrow(), &conds)) {
                            let _ = std::fs::write(format!("{}/unk{}n.smt2", dir, rep.unknown), format!("(set-logic ALL)\n{}(check-sat)\n", q.text));
                        }
                    }
                }
            }
        }
    }
    if rep.unknown > 0 || rep.oracle_only > 0 {
        rep.complete = false;
        if rep.stopped.is_empty() {
            rep.stopped = "unresolved alternatives".into();
        }
    }
    rep.wall_s = t_start.elapsed().as_secs_f64();
    let _ = Node::Var(0);
    rep
}

/// kinds (0 input, 1 oracle output, 2 RNG draw) of the variables a value depends on, with their indices
pub fn term_vars(x: SF) -> Vec<(u32, u8)> {
    if x.t == 0 {
        return vec![];
    }
    ARENA.with(|a| {
        let a = a.borrow();
        let mut memo = HashMap::new();
        super::smt::supp(&a, x.t, &mut memo).into_iter().map(|v| (v, a.var_kind[v as usize])).collect()
    })
}
/// Some(index) if `x` is exactly one fresh RNG variable
pub fn as_rng_var(x: SF) -> Option<u32> {
    if x.t == 0 {
        return None;
    }
    ARENA.with(|a| {
        let a = a.borrow();
        match a.nodes[x.t as usize] {
            Node::Var(i) if a.var_kind[i as usize] == 2 => Some(i),
            _ => None,
        }
    })
}
pub fn rng_draws() -> usize {
    RNG_DRAWS.with(|c| c.get())
}


/// bookkeeping shared by both search orders for a freshly executed run; returns false if the path was seen before
fn account_run(f: &dyn Fn() -> Verdict, seed: u64, out: &RunOut, rep: &mut Report, seen_paths: &mut HashSet<u64>, sig: &[(Cond, bool)]) -> bool {
    if !seen_paths.insert(hash_conds(sig)) {
        return false;
    }
    match &out.verdict {
        Verdict::Discard(_) => rep.discarded += 1,
        Verdict::Hold => rep.paths += 1,
        Verdict::Violation { key, msg } => {
            rep.paths += 1;
            let nat = run_once_mode(f, out.assignment.clone(), seed, true);
            let same = matches!(&nat.verdict, Verdict::Violation { key: k2, .. } if k2 == key);
            let _ = run_once(f, out.assignment.clone(), seed);
            if !same {
                rep.oracle_only += 1;
                if rep.unknown_notes.len() < 5 {
                    rep.unknown_notes.push(format!("violation '{}' needs solver-chosen random-oracle outputs or trapdoor-dependent inputs; it does not reproduce with natural oracle outputs and a fresh trapdoor", key));
                }
            } else {
                rep.violations.push(json!({
                    "key": key, "msg": msg,
                    "inputs": out.assignment.iter().map(fr_dec).collect::<Vec<_>>(),
                    "names": out.names,
                    "path_len": out.path.len(),
                }));
            }
        }
    }
    rep.max_path_len = rep.max_path_len.max(out.path.len());
    rep.max_vars = rep.max_vars.max(out.assignment.len());
    let (pins, notes) = ARENA.with(|a| (a.borrow().pins, a.borrow().pin_notes.clone()));
    rep.pins += pins;
    for n in notes {
        if rep.pin_notes.len() < 6 && !rep.pin_notes.contains(&n) {
            rep.pin_notes.push(n);
        }
    }
    let (fr, hi, _) = super::ro::stats();
    rep.ro_fresh = rep.ro_fresh.max(fr);
    rep.ro_hits = rep.ro_hits.max(hi);
    if rep.samples.len() < 4 {
        rep.samples.push(json!({
            "inputs": describe(&out.names, &out.assignment, 12),
            "branches": out.path.len(),
            "outcome": match &out.verdict { Verdict::Hold => "holds".to_string(), Verdict::Discard(w) => format!("discarded: {}", w), Verdict::Violation{key,..} => format!("VIOLATION {}", key) },
        }));
    }
    true
}

struct Frame {
    input: Vec<Fr>,
    bound: usize,
    expect: Option<Vec<(Cond, bool)>>,
    /// None until executed; then the remaining alternatives to try, deepest code branch first,
    /// oracle-argument alternatives last
    todo: Option<Vec<usize>>,
    sig: Vec<(Cond, bool)>,
    kinds: Vec<Kind>,
    assignment: Vec<Fr>,
}

/// Depth-first variant: after every run only the deepest pending alternative is decided, and a
/// satisfying model is executed at once (one query + one run per step). Used for the properties
/// whose violations lie behind long chains of checks. The set of alternatives decided in the end is
/// the same as in the breadth-first order when the budget suffices.
fn explore_dfs(f: &dyn Fn() -> Verdict, seed: u64, lim: &Limits) -> Report {
    let t_start = Instant::now();
    let mut rep = Report::default();
    let mut solvers = Solvers {
        cvc5_n: Session::new(Which::Cvc5, lim.tl_ms + 500),
        cvc5_x: Session::new(Which::Cvc5, lim.tl_ms + 500),
        cvc5_a: Session::new(Which::Cvc5, lim.tl_ms + 500),
        z3_x: Session::new(Which::Z3, lim.tl_ms + 500),
        cvc5_c: Session::new(Which::Cvc5, 1000),
        z3_check: Session::new(Which::Z3, 400),
        tl_ms: lim.tl_ms,
    };
    let mut stack: Vec<Frame> = vec![Frame { input: vec![], bound: 0, expect: None, todo: None, sig: vec![], kinds: vec![], assignment: vec![] }];
    let mut seen_paths: HashSet<u64> = HashSet::new();
    let mut tried: HashSet<u64> = HashSet::new();
    let mut arena_owner: usize = usize::MAX; // index in a monotone frame counter
    let mut frame_ids: Vec<usize> = vec![0];
    let mut next_id = 1usize;
    let mut unsat_count = 0usize;
    rep.complete = true;
    loop {
        if stack.is_empty() {
            break;
        }
        if rep.runs >= lim.max_runs || t_start.elapsed().as_secs_f64() > lim.wall_s || rep.violations.len() >= lim.max_violations {
            rep.complete = false;
            rep.frontier = stack.iter().map(|fr| fr.todo.as_ref().map_or(1, |t| t.len())).sum();
            rep.stopped = if rep.violations.len() >= lim.max_violations { "max_violations".into() } else if rep.runs >= lim.max_runs { "max_runs".into() } else { "wall budget".into() };
            break;
        }
        let top = stack.len() - 1;
        let my_id = frame_ids[top];
        if stack[top].todo.is_none() {
            let out = run_once(f, stack[top].input.clone(), seed);
            rep.runs += 1;
            rep.selfcheck_fail += out.selfcheck_fail;
            arena_owner = my_id;
            let sig: Vec<(Cond, bool)> = out.path.iter().map(|b| (b.cond, b.taken)).collect();
            if let Some(exp) = &stack[top].expect {
                if !(sig.len() >= exp.len() && sig[..exp.len()] == exp[..]) {
                    rep.divergent += 1;
                }
            }
            if std::env::var("SYMPC_TRACE").is_ok() {
                eprintln!("RUN {} bound={} len={} depth={}", rep.runs, stack[top].bound, out.path.len(), stack.len());
            }
            if !account_run(f, seed, &out, &mut rep, &mut seen_paths, &sig) {
                stack.pop();
                frame_ids.pop();
                continue;
            }
            let kinds: Vec<Kind> = out.path.iter().map(|b| b.kind).collect();
            let b = stack[top].bound;
            // order: oracle-argument alternatives first in the vector (popped last), code branches after, ascending
            let mut todo: Vec<usize> = (b..kinds.len()).filter(|i| kinds[*i] == Kind::RoArg).collect();
            todo.extend((b..kinds.len()).filter(|i| kinds[*i] == Kind::Branch));
            stack[top].todo = Some(todo);
            stack[top].sig = sig;
            stack[top].kinds = kinds;
            stack[top].assignment = out.assignment.clone();
            continue;
        }
        let i = match stack[top].todo.as_mut().unwrap().pop() {
            Some(i) => i,
            None => {
                stack.pop();
                frame_ids.pop();
                continue;
            }
        };
        let mut conds: Vec<(Cond, bool)> = stack[top].sig[..i].to_vec();
        conds.push((stack[top].sig[i].0, !stack[top].sig[i].1));
        if !tried.insert(hash_conds(&conds)) {
            continue;
        }
        if arena_owner != my_id {
            // restore this frame's term arena by re-executing its input
            let _ = run_once(f, stack[top].input.clone(), seed);
            arena_owner = my_id;
        }
        let flipped = stack[top].sig[i].0;
        let base = stack[top].assignment.clone();
        let t0 = Instant::now();
        let dec = decide(&mut solvers, &conds, flipped, &base, &mut rep);
        rep.solver_ms += t0.elapsed().as_millis();
        rep.queries += 1;
        match dec {
            Dec::Negligible => {
                rep.negligible += 1;
                *rep.tier.entry("assumed:oracle-generic".into()).or_insert(0) += 1;
            }
            Dec::Unsat(tier) => {
                rep.unsat += 1;
                *rep.tier.entry(format!("unsat:{}", tier)).or_insert(0) += 1;
                unsat_count += 1;
                // blocked only by oracle-argument disequalities? try without them (exploratory run)
                if stack[top].kinds[i] == Kind::Branch && i + 1 == stack[top].sig.len() {
                    let kinds = stack[top].kinds.clone();
                    let relaxed: Vec<(Cond, bool)> = conds.iter().enumerate().filter(|(k, c)| *k == i || !(kinds[*k] == Kind::RoArg && !c.1)).map(|(_, c)| *c).collect();
                    if relaxed.len() < conds.len() && tried.insert(hash_conds(&relaxed) ^ 0x9e3779b97f4a7c15) {
                        if let Dec::Sat(ni, _) = decide(&mut solvers, &relaxed, flipped, &base, &mut rep) {
                            rep.heuristic_runs += 1;
                            stack.push(Frame { input: ni, bound: 0, expect: None, todo: None, sig: vec![], kinds: vec![], assignment: vec![] });
                            frame_ids.push(next_id);
                            next_id += 1;
                            continue;
                        }
                    }
                }
                if lim.xcheck_every > 0 && unsat_count % lim.xcheck_every == 0 {
                    if let Some(q) = ARENA.with(|a| emit_query(&a.borrow(), &conds, None, false, true)) {
                        rep.xchecks += 1;
                        let other = if tier.contains("z3") { &mut solvers.cvc5_c } else { &mut solvers.z3_check };
                        if let Ans::Sat(vals) = other.ask(&q.text, &q.vars) {
                            let ni = model_to_input(&q, &vals, &base);
                            let all = ARENA.with(|a| {
                                let a = a.borrow();
                                ni.len() == a.var_vals.len() && conds.iter().all(|(c, p)| eval_cond(&a, *c, &ni) == *p)
                            });
                            if all {
                                rep.disagreements += 1;
                            }
                        }
                    }
                }
            }
            Dec::Sat(ni, tier) => {
                let ok = ARENA.with(|a| {
                    let a = a.borrow();
                    conds.iter().all(|(c, p)| eval_cond(&a, *c, &ni) == *p)
                });
                if ok {
                    rep.sat += 1;
                    *rep.tier.entry(format!("sat:{}", tier)).or_insert(0) += 1;
                    stack.push(Frame { input: ni, bound: i + 1, expect: Some(conds.clone()), todo: None, sig: vec![], kinds: vec![], assignment: vec![] });
                    frame_ids.push(next_id);
                    next_id += 1;
                } else {
                    rep.unknown += 1;
                    *rep.tier.entry("model-rejected".into()).or_insert(0) += 1;
                }
            }
            Dec::Unknown(w) => {
                rep.unknown += 1;
                if rep.unknown_notes.len() < 5 {
                    let s: String = w.chars().take(160).collect();
                    rep.unknown_notes.push(format!("branch {} of {}: {}", i, stack[top].sig.len(), s));
                }
            }
        }
    }
    if rep.unknown > 0 || rep.oracle_only > 0 {
        rep.complete = false;
        if rep.stopped.is_empty() {
            rep.stopped = "unresolved alternatives".into();
        }
    }
    rep.wall_s = t_start.elapsed().as_secs_f64();
    rep
}
