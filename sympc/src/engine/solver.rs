//! Persistent solver sessions (cvc5 --incremental, z3-new -in) driven over stdin/stdout with push/pop.
use num_bigint::BigUint;
use std::io::{BufRead, BufReader, Write};
use std::process::{Child, ChildStdin, Command, Stdio};
use std::sync::mpsc::{channel, Receiver, RecvTimeoutError};
use std::time::{Duration, Instant};

#[derive(Debug, Clone)]
pub enum Ans {
    Unsat,
    Sat(Vec<(u32, BigUint)>),
    Unknown(String),
}

#[derive(Clone, Copy, PartialEq, Eq, Debug)]
pub enum Which {
    Cvc5,
    Z3,
}

pub struct Session {
    pub which: Which,
    limit_ms: u64,
    child: Child,
    stdin: ChildStdin,
    rx: Receiver<String>,
    pub queries: usize,
    pub restarts: usize,
    pub wall_ms: u128,
    busy: bool,
    t0: Instant,
    lines: Vec<String>,
    vars: Vec<u32>,
}

fn spawn(which: Which, limit_ms: u64) -> (Child, ChildStdin, Receiver<String>) {
    let mut cmd = match which {
        Which::Cvc5 => {
            let mut c = Command::new("cvc5");
            c.args(["--lang", "smt2", "--incremental", &format!("--tlimit-per={}", limit_ms)]);
            c
        }
        Which::Z3 => {
            let mut c = Command::new("z3-new");
            c.args(["-in", &format!("-t:{}", limit_ms)]);
            c
        }
    };
    let mut child = cmd.stdin(Stdio::piped()).stdout(Stdio::piped()).stderr(Stdio::null()).spawn().expect("solver binary");
    let mut stdin = child.stdin.take().unwrap();
    let stdout = child.stdout.take().unwrap();
    let (tx, rx) = channel();
    std::thread::spawn(move || {
        let r = BufReader::new(stdout);
        for line in r.lines() {
            match line {
                Ok(l) => {
                    if tx.send(l).is_err() {
                        break;
                    }
                }
                Err(_) => break,
            }
        }
    });
    let _ = stdin.write_all(b"(set-logic ALL)\n(set-option :produce-models true)\n");
    (child, stdin, rx)
}

impl Session {
    pub fn new(which: Which, limit_ms: u64) -> Self {
        let (child, stdin, rx) = spawn(which, limit_ms);
        Session { which, limit_ms, child, stdin, rx, queries: 0, restarts: 0, wall_ms: 0, busy: false, t0: Instant::now(), lines: vec![], vars: vec![] }
    }
    fn restart(&mut self) {
        let _ = self.child.kill();
        let _ = self.child.wait();
        let (child, stdin, rx) = spawn(self.which, self.limit_ms);
        self.child = child;
        self.stdin = stdin;
        self.rx = rx;
        self.busy = false;
        self.lines.clear();
        self.restarts += 1;
    }
    /// Submit a query without waiting: `body` = declarations + assertions (no check-sat).
    pub fn send(&mut self, body: &str, vars: &[u32]) -> bool {
        if self.busy {
            self.restart();
        }
        self.queries += 1;
        self.t0 = Instant::now();
        self.lines.clear();
        self.vars = vars.to_vec();
        let mut q = String::with_capacity(body.len() + 256);
        q.push_str("(push 1)\n");
        q.push_str(body);
        q.push_str("(check-sat)\n");
        if !vars.is_empty() {
            q.push_str("(get-value (");
            for v in vars {
                q.push_str(&format!("x{} ", v));
            }
            q.push_str("))\n");
        }
        q.push_str("(pop 1)\n(echo \"<<END>>\")\n");
        if self.stdin.write_all(q.as_bytes()).is_err() || self.stdin.flush().is_err() {
            self.restart();
            return false;
        }
        self.busy = true;
        true
    }
    /// Wait up to `wait` for the answer of the submitted query.
    pub fn poll(&mut self, wait: Duration) -> Option<Ans> {
        if !self.busy {
            return Some(Ans::Unknown("no query".into()));
        }
        let t = Instant::now();
        loop {
            let left = wait.checked_sub(t.elapsed()).unwrap_or(Duration::from_millis(0));
            match self.rx.recv_timeout(left) {
                Ok(l) => {
                    if l.contains("<<END>>") {
                        self.busy = false;
                        self.wall_ms += self.t0.elapsed().as_millis();
                        let lines = std::mem::take(&mut self.lines);
                        let vars = std::mem::take(&mut self.vars);
                        return Some(parse(&lines, &vars));
                    }
                    self.lines.push(l);
                }
                Err(RecvTimeoutError::Timeout) => return None,
                Err(RecvTimeoutError::Disconnected) => {
                    self.restart();
                    return Some(Ans::Unknown("solver died".into()));
                }
            }
        }
    }
    /// Give up on the submitted query (kills and respawns the solver process).
    pub fn abort(&mut self) {
        if self.busy {
            self.wall_ms += self.t0.elapsed().as_millis();
            self.restart();
        }
    }
    /// Blocking query.
    pub fn ask(&mut self, body: &str, vars: &[u32]) -> Ans {
        if !self.send(body, vars) {
            return Ans::Unknown("solver pipe broken".into());
        }
        let hard = Duration::from_millis(self.limit_ms * 2 + 3000);
        match self.poll(hard) {
            Some(a) => a,
            None => {
                self.abort();
                Ans::Unknown("hard timeout".into())
            }
        }
    }
}

fn parse(lines: &[String], vars: &[u32]) -> Ans {
    let first = lines.first().map(|s| s.trim().to_string()).unwrap_or_default();
    if first == "unsat" {
        // anything but the expected get-value complaint is treated as inconclusive
        let errs: Vec<&String> = lines.iter().skip(1).filter(|l| l.contains("(error")).collect();
        if errs.iter().all(|l| l.contains("Cannot get value") || l.contains("model is not available")) {
            return Ans::Unsat;
        }
        return Ans::Unknown(format!("unsat with error: {:?}", errs));
    }
    if lines.iter().any(|l| l.contains("(error")) {
        return Ans::Unknown(lines.join(" | "));
    }
    if first == "sat" {
        let rest: String = lines[1..].join(" ");
        let mut vals = vec![];
        for v in vars {
            let key = format!("(x{} ", v);
            if let Some(pos) = rest.find(&key) {
                let tail = &rest[pos + key.len()..];
                let end = match tail.find(')') {
                    Some(e) => e,
                    None => return Ans::Unknown("model parse".into()),
                };
                let tok = tail[..end].trim();
                if tok.starts_with("(-") || tok.starts_with('-') {
                    return Ans::Unknown(format!("negative value {}", tok));
                }
                match tok.parse::<BigUint>() {
                    Ok(b) => vals.push((*v, b)),
                    Err(_) => return Ans::Unknown(format!("model token {}", tok)),
                }
            } else {
                return Ans::Unknown(format!("model lacks x{}", v));
            }
        }
        return Ans::Sat(vals);
    }
    Ans::Unknown(first)
}

impl Drop for Session {
    fn drop(&mut self) {
        let _ = self.child.kill();
        let _ = self.child.wait();
    }
}
