//! Persistent solver sessions (cvc5 --incremental, z3-new -in) driven over stdin/stdout with push/pop.
use num_bigint::BigUint;
use std::io::{BufRead, BufReader, Write};
use std::process::{Child, ChildStdin, Command, Stdio};
use std::sync::mpsc::{channel, Receiver, RecvTimeoutError};
use std::time::{Duration, Instant};

#[derive(Debug, Clone)]
pub enum Ans {
    Unsat,
    Sat(Vec<(u32, BigUint)>),
    Unknown(String),
}

#[derive(Clone, Copy, PartialEq, Eq, Debug)]
pub enum Which {
    Cvc5,
    Z3,
}

pub struct Session {
    pub which: Which,
    limit_ms: u64,
    child: Child,
    stdin: ChildStdin,
    rx: Receiver<String>,
    pub queries: usize,
    pub restarts: usize,
    pub wall_ms: u128,
}

fn spawn(which: Which, limit_ms: u64) -> (Child, ChildStdin, Receiver<String>) {
    let mut cmd = match which {
        Which::Cvc5 => {
            let mut c = Command::new("cvc5");
            c.args(["--lang", "smt2", "--incremental", &format!("--tlimit-per={}", limit_ms)]);
            c
        }
        Which::Z3 => {
            let mut c = Command::new("z3-new");
            c.args(["-in", &format!("-t:{}", limit_ms)]);
            c
        }
    };
    let mut child = cmd.stdin(Stdio::piped()).stdout(Stdio::piped()).stderr(Stdio::null()).spawn().expect("solver binary");
    let mut stdin = child.stdin.take().unwrap();
    let stdout = child.stdout.take().unwrap();
    let (tx, rx) = channel();
    std::thread::spawn(move || {
        let r = BufReader::new(stdout);
        for line in r.lines() {
            match line {
                Ok(l) => {
                    if tx.send(l).is_err() {
                        break;
                    }
                }
                Err(_) => break,
            }
        }
    });
    let _ = stdin.write_all(b"(set-logic ALL)\n(set-option :produce-models true)\n");
    (child, stdin, rx)
}

impl Session {
    pub fn new(which: Which, limit_ms: u64) -> Self {
        let (child, stdin, rx) = spawn(which, limit_ms);
        Session { which, limit_ms, child, stdin, rx, queries: 0, restarts: 0, wall_ms: 0 }
    }
    fn restart(&mut self) {
        let _ = self.child.kill();
        let _ = self.child.wait();
        let (child, stdin, rx) = spawn(self.which, self.limit_ms);
        self.child = child;
        self.stdin = stdin;
        self.rx = rx;
        self.restarts += 1;
    }
    /// `body`: declarations + assertions (no check-sat). Returns the verdict and the model for `vars`.
    pub fn ask(&mut self, body: &str, vars: &[u32]) -> Ans {
        self.queries += 1;
        let t0 = Instant::now();
        let mut q = String::with_capacity(body.len() + 256);
        q.push_str("(push 1)\n");
        q.push_str(body);
        q.push_str("(check-sat)\n");
        if !vars.is_empty() {
            q.push_str("(get-value (");
            for v in vars {
                q.push_str(&format!("x{} ", v));
            }
            q.push_str("))\n");
        }
        q.push_str("(pop 1)\n(echo \"<<END>>\")\n");
        if self.stdin.write_all(q.as_bytes()).is_err() || self.stdin.flush().is_err() {
            self.restart();
            self.wall_ms += t0.elapsed().as_millis();
            return Ans::Unknown("solver pipe broken".into());
        }
        let hard = Duration::from_millis(self.limit_ms * 2 + 3000);
        let mut lines: Vec<String> = vec![];
        loop {
            let left = hard.checked_sub(t0.elapsed()).unwrap_or(Duration::from_millis(0));
            match self.rx.recv_timeout(left) {
                Ok(l) => {
                    if l.contains("<<END>>") {
                        break;
                    }
                    lines.push(l);
                }
                Err(RecvTimeoutError::Timeout) | Err(RecvTimeoutError::Disconnected) => {
                    self.restart();
                    self.wall_ms += t0.elapsed().as_millis();
                    return Ans::Unknown("hard timeout".into());
                }
            }
        }
        self.wall_ms += t0.elapsed().as_millis();
        let first = lines.first().map(|s| s.trim().to_string()).unwrap_or_default();
        if first == "unsat" {
            // anything but the expected get-value complaint is treated as inconclusive
            let errs: Vec<&String> = lines.iter().skip(1).filter(|l| l.contains("(error")).collect();
            if errs.iter().all(|l| l.contains("Cannot get value") || l.contains("model is not available")) {
                return Ans::Unsat;
            }
            return Ans::Unknown(format!("unsat with error: {:?}", errs));
        }
        if lines.iter().any(|l| l.contains("(error")) {
            return Ans::Unknown(lines.join(" | "));
        }
        if first == "sat" {
            let rest: String = lines[1..].join(" ");
            let mut vals = vec![];
            for v in vars {
                let key = format!("(x{} ", v);
                if let Some(pos) = rest.find(&key) {
                    let tail = &rest[pos + key.len()..];
                    let end = match tail.find(')') {
                        Some(e) => e,
                        None => return Ans::Unknown("model parse".into()),
                    };
                    let tok = tail[..end].trim();
                    if tok.starts_with("(-") || tok.starts_with('-') {
                        return Ans::Unknown(format!("negative value {}", tok));
                    }
                    match tok.parse::<BigUint>() {
                        Ok(b) => vals.push((*v, b)),
                        Err(_) => return Ans::Unknown(format!("model token {}", tok)),
                    }
                } else {
                    return Ans::Unknown(format!("model lacks x{}", v));
                }
            }
            return Ans::Sat(vals);
        }
        Ans::Unknown(first)
    }
}

impl Drop for Session {
    fn drop(&mut self) {
        let _ = self.child.kill();
        let _ = self.child.wait();
    }
}
