#!/bin/bash
# Builds the SymPC harness crate offline against /repo's working tree (hooks on).
set -e
cd "$(dirname "$0")/sympc"
export CARGO_NET_OFFLINE=true RUSTUP_TOOLCHAIN=stable RUSTFLAGS="--cfg arkworks_rs_poly_commit_verif" CARGO_TARGET_DIR="$PWD/target"
cargo build --offline --quiet
echo "sympc built"
