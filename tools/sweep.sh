#!/bin/bash
# usage: sweep.sh <seed> <tier>
for P in C01 C02 C03 C04 C05 C06 C07 C08 C09 C10 C11 C12 C13 C14 C15 C16 C17 C19; do
  VERIF_SEED=$1 ./check $P --tier $2 2>&1 | grep -E "tier=|VIOLATION|SELF-CHECK|violated|BUILD|KNOWN|INCONCL" | cut -c1-260; echo "   $P exit=${PIPESTATUS[0]}"
done
