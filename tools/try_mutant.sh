#!/bin/bash
# try_mutant.sh <mutdir> <PROP> [extra check args]: apply the seeded change to /repo, run the check, undo it.
M=$1; P=$2; shift 2
cd /verif
[ -z "$(git -C /repo status --porcelain)" ] || { echo "/repo is dirty"; exit 2; }
cp evidence/$P.json /tmp/evidence_$P.bak 2>/dev/null
git -C /repo apply $M/patch.diff || { echo "patch does not apply"; exit 2; }
./check $P "$@" > $M/check_$P.log 2>&1; rc=$?
git -C /repo checkout -- . ; git -C /repo clean -fdq -e target
cp /tmp/evidence_$P.bak evidence/$P.json 2>/dev/null
echo "$(basename $(dirname $M))/$(basename $M) vs $P: exit=$rc  $(grep -c '^VIOLATION' $M/check_$P.log) violation lines"
grep -E "violated:|SELF-CHECK|BUILD" $M/check_$P.log | head -5
