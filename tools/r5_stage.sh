#!/bin/bash
# r5_stage.sh <ID>...: copy a round-5 agent's out/1 into /tmp/r5/<ID>/1 and confirm it in the agent's worktree
for ID in "$@"; do
  k=1
  src=/tmp/wt5/$ID/out/$k
  [ -f $src/patch.diff ] || continue
  [ -f /tmp/r5/$ID/$k/confirm.json ] && continue
  mkdir -p /tmp/r5/$ID/$k
  cp $src/patch.diff $src/demo.rs $src/meta.json /tmp/r5/$ID/$k/
  /verif/tools/confirm_mutant.sh /tmp/wt5/$ID /tmp/r5/$ID/$k > /tmp/r5/$ID/$k/confirm.out 2>&1 < /dev/null
  echo "$ID/$k $(cat /tmp/r5/$ID/$k/confirm.json)"
done
