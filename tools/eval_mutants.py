#!/usr/bin/env python3
"""eval_mutants.py [ID/K ...]: apply each seeded change (/verif/seeded/<ID>/<K>/patch.diff) to /repo, run the
check(s) of its property, undo. Results go to /verif/seeded/results/<ID>_<K>.json. /repo must be clean;
evidence files are restored."""
import json, os, subprocess, sys, shutil, time, glob
R = os.environ.get("EVAL_RESULTS", "/verif/seeded/results")
S = os.environ.get("EVAL_SRC", "/verif/seeded")  # with EVAL_SRC=<root> EVAL_OFFSET=<n>: not yet imported changes, stored as <ID>/<k+n>
OFF = int(os.environ.get("EVAL_OFFSET", "0"))
REPO = os.environ.get("EVAL_REPO", "/repo")
VERIF = os.environ.get("EVAL_VERIF", "/verif")
os.makedirs(R, exist_ok=True)
targets = sys.argv[1:] or sorted(p[len(S) + 1:] for p in glob.glob(S + "/C??/[0-9]*"))
OVERRIDE = {"C04/1": ["C09"], "C11/3": ["C11", "C01"]}
EXTRA = {"C02/3": ["C06"], "C03/1": ["C05"], "C10/1": ["C05"], "C19/1": ["C13"], "C03/2": ["C10"], "C03/3": ["C10"], "C10/2": ["C10"], "C07/1": ["C07", "C17"], "C17/1": ["C17", "C07"],
         "C01/4": ["C14"], "C02/5": ["C06"], "C03/5": ["C05", "C10"], "C05/4": ["C10"],
         "C03/7": ["C10"], "C04/6": ["C01", "C10"], "C09/7": ["C15"], "C17/6": ["C04"],
         "C02/7": ["C05"], "C08/6": ["C14"], "C11/7": ["C01"],
         # round 4 (stored as 8, 9)
         "C01/9": ["C05"], "C02/8": ["C05"], "C03/8": ["C05"], "C04/8": ["C06", "C17"], "C04/9": ["C17"], "C05/8": ["C14", "C10"], "C05/9": ["C03"], "C03/9": ["C02"],
         "C07/8": ["C08", "C17"], "C08/8": ["C01"], "C09/9": ["C17", "C04"], "C10/8": ["C06"], "C10/9": ["C06"], "C13/9": ["C17"], "C17/8": ["C09"],
         "C17/9": ["C04"],
         # round 5 (stored as 10): EVAL_OFFSET=9
         "C02/10": ["C14", "C10"], "C03/10": ["C04", "C17"], "C04/10": ["C12"], "C05/10": ["C10"], "C07/10": ["C09", "C17"], "C08/10": ["C14"], "C09/10": ["C12"], "C10/10": ["C01", "C04"], "C11/10": ["C13"], "C13/10": ["C11", "C10"], "C15/10": ["C07", "C01"], "C17/10": ["C04"], "C19/10": ["C13"], "C12/10": ["C07"], "C01/10": ["C11"], "C06/10": ["C10"], "C19/9": ["C13"], "C11/9": ["C05"], "C19/8": ["C01"]}
def sh(cmd, **kw):
    return subprocess.run(cmd, shell=True, stdout=subprocess.PIPE, stderr=subprocess.STDOUT, text=True, **kw)
for t in targets:
    pid, k = t.split("/")
    m = f"{S}/{pid}/{k}"
    if not os.path.exists(m + "/patch.diff"):
        continue
    out = {"mutant": f"{pid}/{int(k) + OFF}", "checks": {}}
    if sh(f"git -C {REPO} status --porcelain").stdout.strip():
        print("repo dirty; abort"); sys.exit(2)
    a = sh(f"git -C {REPO} apply {m}/patch.diff")
    if a.returncode != 0:
        a = sh(f"git -C {REPO} apply --3way {m}/patch.diff")
        sh(f"git -C {REPO} reset -q")
    out["applies"] = a.returncode == 0
    if a.returncode != 0:
        out["apply_msg"] = a.stdout[-400:]
        sh(f"git -C {REPO} checkout -- . ; git -C {REPO} clean -fdq -e target")
    else:
        name = out["mutant"]
        props = OVERRIDE.get(name) or ([pid] + [p for p in EXTRA.get(name, []) if p != pid])
        for p in props:
            ev = f"{VERIF}/evidence/{p}.json"
            bak = f"/tmp/evidence_{p}_{os.getpid()}.bak"
            if os.path.exists(ev): shutil.copy(ev, bak)
            t0 = time.time()
            r = sh(f"cd {VERIF} && ./check {p} --tier quick", timeout=3000)
            viol = [l for l in r.stdout.splitlines() if l.startswith("VIOLATION") or "violated:" in l]
            out["checks"][p] = {"exit": r.returncode, "violations": viol[:8], "n_violation_lines": len([l for l in viol if l.startswith("VIOLATION")]), "wall_s": round(time.time() - t0), "tail": r.stdout[-600:] if r.returncode not in (0, 1) else ""}
            if os.path.exists(bak): shutil.copy(bak, ev)
        sh(f"git -C {REPO} checkout -- . ; git -C {REPO} clean -fdq -e target")
    json.dump(out, open(f"{R}/{pid}_{int(k) + OFF}.json", "w"), indent=1)
    print(out["mutant"], "applies" if out["applies"] else "NOAPPLY", {p: (c["exit"], c["n_violation_lines"]) for p, c in out["checks"].items()}, flush=True)
