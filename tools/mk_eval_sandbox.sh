#!/bin/bash
# mk_eval_sandbox.sh <dir>: a private copy of /verif plus a scratch worktree of /repo HEAD under <dir>, so that
# tools/eval_mutants.py can apply seeded changes without touching /repo (EVAL_REPO=<dir>/repo EVAL_VERIF=<dir>/verif).
# Remove with: git -C /repo worktree remove --force <dir>/repo; rm -rf <dir>
set -e
D=$1
mkdir -p $D
if [ -d $D/repo ]; then git -C $D/repo checkout -q --detach $(git -C /repo rev-parse HEAD); else git -C /repo worktree add -q --detach $D/repo HEAD; fi
rsync -a --exclude sympc/target --exclude replay --exclude scratch --exclude .git /verif/ $D/verif/
sed -i "s|path = \"/repo/poly-commit\"|path = \"$D/repo/poly-commit\"|" $D/verif/sympc/Cargo.toml
sed -i "s|\"/repo/\", scratch|\"$D/repo/\", scratch|" $D/verif/check
grep -n "$D/repo" $D/verif/sympc/Cargo.toml $D/verif/check
