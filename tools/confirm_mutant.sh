#!/bin/bash
# confirm_mutant.sh <worktree> <mutdir>  : applies <mutdir>/patch.diff in the scratch worktree, runs the existing
# test suite (must pass), runs the demo (must fail), reverts, runs the demo again (must pass). Writes <mutdir>/confirm.json
WT=$1; M=$2
export CARGO_NET_OFFLINE=true CARGO_TARGET_DIR=$WT/target
cd $WT || exit 2
git checkout -q -- . ; git clean -fdq -e target -e out -e TASK.md
place=$(head -5 $M/demo.rs | grep -o 'poly-commit/[A-Za-z0-9_/.-]*\.rs' | head -1)
[ -z "$place" ] && place=poly-commit/tests/demo_$(basename $(dirname $M))_$(basename $M).rs
name=$(basename $place .rs)
mkdir -p $(dirname $place)
git apply $M/patch.diff || { echo '{"applies":false}' > $M/confirm.json; exit 1; }
nice -n 5 cargo test --workspace --no-fail-fast --offline --lib --bins > $M/confirm_suite.log 2>&1; suite=$?
passed=$(grep -E "^test result" $M/confirm_suite.log | awk '{s+=$4} END{print s+0}')
failed=$(grep -E "^test result" $M/confirm_suite.log | awk '{s+=$6} END{print s+0}')
cp $M/demo.rs $place
nice -n 5 cargo test -p ark-poly-commit --offline --test $name > $M/confirm_demo_with.log 2>&1; with=$?
git checkout -q -- . ; git clean -fdq -e target -e out -e TASK.md
mkdir -p $(dirname $place); cp $M/demo.rs $place
nice -n 5 cargo test -p ark-poly-commit --offline --test $name > $M/confirm_demo_without.log 2>&1; without=$?
rm -f $place; git checkout -q -- . ; git clean -fdq -e target -e out -e TASK.md
echo "{\"applies\":true,\"suite_exit\":$suite,\"suite_passed\":$passed,\"suite_failed\":$failed,\"demo_with_patch_exit\":$with,\"demo_without_patch_exit\":$without,\"demo_place\":\"$place\"}" > $M/confirm.json
cat $M/confirm.json
