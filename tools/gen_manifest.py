#!/usr/bin/env python3
"""Regenerates MANIFEST.json from the table below (kept in one place so it stays valid)."""
import json, os
ROOT = os.path.dirname(os.path.dirname(os.path.abspath(__file__)))
CLAIMED = json.load(open(os.path.join(ROOT, "tools", "claims.json")))
props = [json.loads(l) for l in open(os.path.join(ROOT, "properties.jsonl"))]
checks = []
na = []
for p in props:
    pid = p["id"]
    c = CLAIMED.get(pid)
    if not c or c.get("not_applicable"):
        na.append({"property_id": pid, "reason": (c or {}).get("not_applicable", "no check is registered for this property yet")})
        continue
    checks.append({
        "property_id": pid,
        "quick_cmd": "./check %s --tier quick" % pid,
        "thorough_cmd": "./check %s --tier thorough" % pid,
        "evidence_file": "/verif/evidence/%s.json" % pid,
        "replay_cmd_template": "./check %s --replay {path}" % pid,
        "engine": c.get("engine", "sympc"),
        "level_claimed": {"category": "model_checking", "text": c["text"], "design_ref": c.get("design_ref", "DESIGN.md section 5")},
        "level_note": c["note"],
        "technique": c["technique"],
    })
m = {
    "version": 1,
    "setup_cmd": "./setup.sh",
    "hooks": {
        "guard": "cfg(arkworks_rs_poly_commit_verif) (and cfg(kani) for in-crate Kani harnesses)",
        "enable": "RUSTFLAGS=\"--cfg arkworks_rs_poly_commit_verif\" (set by ./check for the harness crate verif/sympc, which depends on /repo/poly-commit by path); cargo kani sets cfg(kani)",
        "baseline_off_cmd": "cd /repo && cargo test --workspace --no-fail-fast --offline",
        "source_commits": json.load(open(os.path.join(ROOT, "tools", "hook_commits.json"))),
        "add_only": True,
    },
    "engines": [
        {"name": "sympc", "path": "/verif/sympc", "serves_properties": [c["property_id"] for c in checks],
         "kind_free_text": "dynamic symbolic execution of the real generic Rust code over a shadow field/group/oracle algebra; every branch alternative decided by cvc5/z3 over integers mod r; models re-executed natively"},
        {"name": "kani", "path": "/repo/poly-commit (in-crate #[cfg(kani)] harnesses, run by ./check in a scratch copy)", "serves_properties": [c["property_id"] for c in checks if "kani" in c.get("engine", "")],
         "kind_free_text": "Kani 0.68 / CBMC bounded model checking of integer kernels with unwinding assertions"},
    ],
    "checks": checks,
    "not_applicable": na,
    "notes": "All checks share ./check <ID>; VERIF_SEED selects initial inputs, concrete tapes and SRS; known_findings.json lists recorded genuine defects.",
}
json.dump(m, open(os.path.join(ROOT, "MANIFEST.json"), "w"), indent=1)
print("claimed:", [c["property_id"] for c in checks], "na:", [n["property_id"] for n in na])
