#!/usr/bin/env python3
"""regress_seeded.py <sandbox-dir> <out.json> [ID/K ...]: fast regression of earlier seeded changes against the
current checks: for each change, apply it in the sandbox's repo copy, rebuild the harness there, and run only the
configuration recorded as the first one that reported it (seeded/<ID>/<K>/meta.json, checks_run_against_it[..].first).
Writes {mutant: {property, config, still_caught, key}}. Not a check; a development aid."""
import json, os, subprocess, sys, glob, re
sb, outp = sys.argv[1], sys.argv[2]
targets = sys.argv[3:] or sorted(p[len("/verif/seeded/"):] for p in glob.glob("/verif/seeded/C??/[0-9]*"))
repo, verif = sb + "/repo", sb + "/verif"
env = dict(os.environ, CARGO_NET_OFFLINE="true", RUSTFLAGS="--cfg arkworks_rs_poly_commit_verif", RUSTUP_TOOLCHAIN="stable", CARGO_TARGET_DIR=verif + "/sympc/target")
def sh(cmd, **kw):
    return subprocess.run(cmd, shell=True, stdout=subprocess.PIPE, stderr=subprocess.STDOUT, text=True, **kw)
res = json.load(open(outp)) if os.path.exists(outp) else {}
for t in targets:
    if t in res:
        continue
    meta = json.load(open(f"/verif/seeded/{t}/meta.json"))
    cands = []
    for p, c in (meta.get("checks_run_against_it") or {}).items():
        m = re.match(r"violated: (\S+) key=(\S+)", c.get("first") or "")
        if c.get("exit") == 1 and m:
            cands.append((p, m.group(1), m.group(2)))
    if not cands:
        res[t] = {"skipped": "no recorded catching configuration"}
        continue
    if sh(f"git -C {repo} status --porcelain").stdout.strip():
        print("repo dirty; abort"); sys.exit(2)
    a = sh(f"git -C {repo} apply /verif/seeded/{t}/patch.diff")
    if a.returncode != 0:
        a = sh(f"git -C {repo} apply --3way /verif/seeded/{t}/patch.diff"); sh(f"git -C {repo} reset -q")
    if a.returncode != 0:
        res[t] = {"skipped": "patch does not apply to the current tree"}
        sh(f"git -C {repo} checkout -- . ; git -C {repo} clean -fdq -e target")
        continue
    b = sh("cargo build --offline --quiet", cwd=verif + "/sympc", env=env)
    entry = {"build_ok": b.returncode == 0, "runs": []}
    if b.returncode == 0:
        for (p, cfg, key) in cands:
            r = sh(f"{verif}/sympc/target/debug/sympc run {p} quick '{cfg}' 1", env=env, timeout=400)
            viol = []
            for line in r.stdout.splitlines():
                if line.startswith("RESULT "):
                    viol = [v.get("key") for v in json.loads(line[7:]).get("violations", [])]
            entry["runs"].append({"property": p, "config": cfg, "expected_key": key, "violations": viol, "still_caught": len(viol) > 0})
    entry["still_caught"] = any(r["still_caught"] for r in entry["runs"])
    res[t] = entry
    sh(f"git -C {repo} checkout -- . ; git -C {repo} clean -fdq -e target")
    json.dump(res, open(outp, "w"), indent=1)
    print(t, entry["still_caught"], [(r["config"], r["violations"][:1]) for r in entry["runs"]][:2], flush=True)
