#!/bin/bash
# runcfg.sh <PROP> <tier> <glob>: development aid - run the configurations matching <glob>, print a one-line summary each
P=$1; T=$2; G=$3
BIN=/verif/sympc/target/debug/sympc
$BIN list $P $T | grep -E "$G" | xargs -P ${JOBS:-12} -I{} bash -c "$BIN run $P $T '{}' ${VERIF_SEED:-1} 2>&1 | python3 -c \"
import sys,json
for l in sys.stdin:
    if l.startswith('RESULT '):
        d=json.loads(l[7:]); print({k:(d[k] if k!='violations' else [(v.get('key'),v.get('msg','')[:120]) for v in d[k]][:3]) for k in d if k in ('config','runs','paths','queries','unresolved','exhaustive','violations','wall_s','pins','divergent')})
\""
