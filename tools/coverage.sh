#!/bin/bash
# coverage.sh [wall_s]: development aid (not a check). Builds the harness crate with source-based coverage
# on the nightly toolchain, runs every quick configuration of every property for at most wall_s seconds each,
# and reports which lines of /repo/poly-commit/src no driver executes. Output under /tmp/cov.
W=${1:-15}
export CARGO_NET_OFFLINE=true RUSTUP_TOOLCHAIN=nightly CARGO_TARGET_DIR=/tmp/cov/target
export RUSTFLAGS="--cfg arkworks_rs_poly_commit_verif -C instrument-coverage"
cd /verif/sympc && cargo build --offline --quiet 2>&1 | tail -3
BIN=/tmp/cov/target/debug/sympc
LT=$(dirname $(rustup which rustc))/../lib/rustlib/x86_64-unknown-linux-gnu/bin
rm -rf /tmp/cov/prof; mkdir -p /tmp/cov/prof
for P in C01 C02 C03 C04 C05 C06 C07 C08 C09 C10 C11 C12 C13 C14 C15 C16 C17 C19; do
  for c in $($BIN list $P quick); do echo "$P $c"; done
done > /tmp/cov/configs.txt
wc -l /tmp/cov/configs.txt
cat /tmp/cov/configs.txt | SYMPC_WALL_S=$W xargs -P 14 -L 1 bash -c 'LLVM_PROFILE_FILE=/tmp/cov/prof/$0-%p.profraw timeout 120 '$BIN' run $0 quick $1 1 >/dev/null 2>&1'
$LT/llvm-profdata merge -sparse /tmp/cov/prof/*.profraw -o /tmp/cov/all.profdata
$LT/llvm-cov report $BIN -instr-profile=/tmp/cov/all.profdata --sources /repo/poly-commit/src > /tmp/cov/report.txt 2>/dev/null
$LT/llvm-cov show $BIN -instr-profile=/tmp/cov/all.profdata --sources /repo/poly-commit/src --show-line-counts-or-regions > /tmp/cov/show.txt 2>/dev/null
tail -60 /tmp/cov/report.txt
