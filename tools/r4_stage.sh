#!/bin/bash
# r4_stage.sh <ID>...: copy a round-4 agent's out/{1,2} into /tmp/r4/<ID>/{1,2}, confirm each in the agent's worktree
for ID in "$@"; do
  for k in 1 2; do
    src=/tmp/wt4/$ID/out/$k
    [ -f $src/patch.diff ] || continue
    [ -f /tmp/r4/$ID/$k/confirm.json ] && continue
    mkdir -p /tmp/r4/$ID/$k
    cp $src/patch.diff $src/demo.rs $src/meta.json /tmp/r4/$ID/$k/
    /verif/tools/confirm_mutant.sh /tmp/wt4/$ID /tmp/r4/$ID/$k > /tmp/r4/$ID/$k/confirm.out 2>&1 < /dev/null
    echo "$ID/$k $(cat /tmp/r4/$ID/$k/confirm.json)"
  done
done
