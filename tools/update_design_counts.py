#!/usr/bin/env python3
"""update_design_counts.py: rewrites the '(…; N configs, ~T s)' figures of DESIGN.md section 5 from evidence/<ID>.json (quick tier)."""
import json, re, os
p = "/verif/DESIGN.md"
s = open(p).read()
for pid in ["C%02d" % i for i in range(1, 20)]:
    f = f"/verif/evidence/{pid}.json"
    if not os.path.exists(f):
        continue
    d = json.load(open(f))
    n = d["coverage"]["configurations"]
    w = d["wall_s"]
    t = f"~{round(w)} s" if w < 100 else f"~{w / 60:.1f} min"
    # first occurrence after the property's bullet
    m = re.search(r"\* \*\*%s [^\n]*?\(`[^)]*?; (\d+) configs[^,)]*, ~[^)]*\)" % pid, s)
    if not m:
        print("no pattern for", pid); continue
    seg = m.group(0)
    new = re.sub(r"; \d+ configs[^,)]*, ~[^)]*\)", f"; {n} configs, {t} quick)", seg)
    s = s.replace(seg, new, 1)
open(p, "w").write(s)
